#!/usr/bin/env python3
"""Regenerates /verif/MANIFEST.json from tools/claims.json (claimed checks) and
tools/na.json (not-applicable reasons). Every property id of properties.jsonl
must appear in exactly one of them."""
import json, os, sys

root = os.path.dirname(os.path.dirname(os.path.abspath(__file__)))
props = [json.loads(l)["id"] for l in open(os.path.join(root, "properties.jsonl"))]
claims = json.load(open(os.path.join(root, "tools", "claims.json")))
na = json.load(open(os.path.join(root, "tools", "na.json")))

checks = []
for pid in props:
    if pid in claims:
        c = claims[pid]
        checks.append({
            "property_id": pid,
            "quick_cmd": "./check %s quick" % pid,
            "thorough_cmd": "./check %s thorough" % pid,
            "evidence_file": "evidence/%s.json" % pid,
            "replay_cmd_template": "./check --replay {path}",
            "engine": "gosmt",
            "level_claimed": {"category": "model_checking", "text": c["level_text"], "design_ref": c.get("design_ref", "DESIGN.md section 5")},
            "level_note": c["level_note"],
            "technique": c.get("technique", "bounded symbolic execution of the real Go functions (go/ssa) with SMT-decided branches, assertions and run-time checks; counterexamples replayed natively"),
        })
not_app = []
for pid in props:
    if pid not in claims:
        if pid not in na:
            print("missing reason for", pid)
            sys.exit(1)
        not_app.append({"property_id": pid, "reason": na[pid]})
both = [p for p in props if p in claims and p in na]
if both:
    print("warning: both claimed and n/a (claim wins):", both)

manifest = {
    "version": 1,
    "setup_cmd": "./setup.sh",
    "hooks": {
        "guard": "verif",
        "enable": "none needed: harnesses are injected through go/packages and `go test -overlay`; /repo is not modified",
        "baseline_off_cmd": "cd /repo && go test -vet=off -count=1 -timeout 25m ./...",
        "source_commits": [],
        "add_only": True,
    },
    "engines": [{
        "name": "gosmt",
        "path": "engine/",
        "serves_properties": [c["property_id"] for c in checks],
        "kind_free_text": "own symbolic executor for Go SSA (golang.org/x/tools/go/ssa v0.50.0, built with go1.26.8): forking path exploration, hash-consed bit-vector/Int terms, verification conditions discharged by z3 5.1 (fallback cvc5 --solve-bv-as-int), counterexamples and sampled path models replayed against the native build of the same harness",
    }],
    "checks": checks,
    "notes": "See DESIGN.md. Exit codes of ./check: 0 = every VC unsat within the stated bounds, 1 = replay-confirmed violation (VIOLATION line), 2 = inconclusive (solver unknown, bound exceeded, unsupported construct, translator-validation mismatch).",
    "not_applicable": not_app,
}
json.dump(manifest, open(os.path.join(root, "MANIFEST.json"), "w"), indent=1)
print("claimed:", [c["property_id"] for c in checks], "n/a:", len(not_app))

#!/bin/bash
# Development aid (not used by any registered command).
# tools/seedtest.sh <seed-dir> <worktree> <demo-pkg-dir> <property> [tier] [extra gosmt args]
#   1. confirms in the scratch worktree that the demonstration passes on the clean tree,
#      fails with the patch, and that the existing tests of the touched packages still pass;
#   2. runs the property's check against the patched worktree (gosmt --repo <worktree>), so
#      /repo itself is never touched;
#   3. restores the worktree.
set -u
seed="$1"; wt="$2"; pkg="$3"; prop="$4"; tier="${5:-quick}"; shift 5 2>/dev/null || shift $#
export GOFLAGS=-mod=mod GOPROXY=off
verif="$(cd "$(dirname "$0")/.." && pwd)"
log() { echo "[seedtest] $*"; }
cd "$wt" || exit 2
git checkout -q -- . ; rm -f "$pkg/zz_seed_demo_test.go"
[ -z "$(git status --short)" ] || { log "worktree not clean"; git status --short; exit 2; }
demo=$(ls "$seed"/*_test.go | head -1)
cp "$demo" "$pkg/zz_seed_demo_test.go"
if [ -z "${SKIP_CONFIRM:-}" ]; then
	timeout 900 go test -count=1 -run TestZZSeedDemo "./$pkg/" >/tmp/seedtest.$$ 2>&1 && log "demo on clean tree: PASS" || { log "demo on clean tree: FAIL (unexpected)"; tail -5 /tmp/seedtest.$$; }
fi
git apply "$seed/patch.diff" || { log "patch does not apply"; exit 2; }
touched=$(git diff --name-only | xargs -n1 dirname | sort -u | sed 's|^|./|; s|$|/|')
if [ -z "${SKIP_CONFIRM:-}" ]; then
	timeout 900 go test -count=1 -run TestZZSeedDemo "./$pkg/" >/tmp/seedtest.$$ 2>&1 && log "demo with patch: PASS (unexpected)" || log "demo with patch: FAIL (as expected)"
	rm -f "$pkg/zz_seed_demo_test.go"
	timeout 1800 go test -count=1 $touched >/tmp/seedtest.$$ 2>&1 && log "existing tests of $touched with patch: ok" || { log "existing tests with patch: FAIL"; tail -8 /tmp/seedtest.$$; }
fi
rm -f "$pkg/zz_seed_demo_test.go" /tmp/seedtest.$$
cd "$verif"
log "running check $prop $tier against the patched tree"
bin/gosmt check --property "$prop" --tier "$tier" --repo "$wt" --verif "$verif" --no-evidence "$@" 2>&1 | grep -v "^harness .* violations=0" | tail -25
log "check exit code: ${PIPESTATUS[0]}"
git -C "$wt" checkout -q -- .

#!/usr/bin/env python3
"""Development aid: for each thorough harness of the listed properties run it alone under a time cap;
if it does not end OK, replace its thorough bounds by its quick bounds (which run clean on every
check), so that MANIFEST never registers a bound that was not seen to run clean.

usage: tools/verify_thorough.py <cap-seconds> <property-id>..."""
import json, subprocess, os, sys, time

root = os.path.dirname(os.path.dirname(os.path.abspath(__file__)))
os.chdir(root)
CAP = int(sys.argv[1])
env = dict(os.environ, GOSMT_CAP_S=str(CAP))
for pid in sys.argv[2:]:
    p = os.path.join(root, 'harness', pid, 'spec.json')
    sp = json.load(open(p))
    for h in sp['harnesses']:
        t = h.get('thorough') or {}
        q = h.get('quick') or {}
        if t.get('skip') or q.get('skip') or t.get('bounds') == q.get('bounds'):
            continue
        t0 = time.time()
        try:
            out = subprocess.run(['bin/gosmt', 'check', '--property', pid, '--tier', 'thorough', '--only', h['name'], '--no-evidence'],
                                 env=env, capture_output=True, text=True, timeout=CAP + 200).stdout
        except subprocess.TimeoutExpired:
            out = 'TIMEOUT'
        ok = 'OK property=' in out and 'INCONCLUSIVE' not in out and 'VIOLATION' not in out
        print(pid, h['name'], 'OK' if ok else 'FALLBACK', '%.0fs' % (time.time() - t0), flush=True)
        if not ok:
            sp2 = json.load(open(p))
            for h2 in sp2['harnesses']:
                if h2['name'] == h['name']:
                    h2['thorough'] = dict(q, timeout_s=3000)
                    h2['note'] = 'thorough tier equals the quick tier: the larger bound did not finish within the time available in the build session'
            json.dump(sp2, open(p, 'w'), indent=1)
print('VERIFY-DONE', flush=True)

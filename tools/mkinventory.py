#!/usr/bin/env python3
"""Regenerates the harness inventory section of DESIGN.md from harness/*/spec.json."""
import json, os, re
root = os.path.dirname(os.path.dirname(os.path.abspath(__file__)))
out = ["## 15. Harness inventory as built (generated from harness/*/spec.json by tools/mkinventory.py)\n",
       "Where this section and section 5 disagree, this section is what exists; section 5 is the plan it grew from.\n"]
for pid in sorted(os.listdir(os.path.join(root, "harness"))):
    sp = os.path.join(root, "harness", pid, "spec.json")
    if not os.path.exists(sp):
        continue
    s = json.load(open(sp))
    out.append("### %s\n" % pid)
    for h in s["harnesses"]:
        q = (h.get("quick") or {}).get("bounds")
        t = h.get("thorough") or {}
        tb = "skipped" if t.get("skip") else t.get("bounds")
        flags = []
        if h.get("int_mode"): flags.append("integer encoding")
        if h.get("summaries"): flags.append("summaries: " + ", ".join(k.split("/")[-1] for k in h["summaries"]))
        if h.get("uf"): flags.append("uninterpreted: " + ", ".join(u.split(".")[-1].rstrip(")") for u in h["uf"]))
        if h.get("map_perms"): flags.append("all map iteration orders")
        out.append("* `%s` - %s%s%s%s" % (h["name"], h.get("what", ""),
                   (" Quick bounds %s." % json.dumps(q)) if q else "",
                   (" Thorough bounds %s." % (json.dumps(tb) if not isinstance(tb, str) else tb)) if tb else "",
                   (" [" + "; ".join(flags) + "]") if flags else ""))
    if s.get("assumptions"):
        out.append("\nAssumptions: " + "; ".join(s["assumptions"]) + ".")
    if s.get("outside_claim"):
        out.append("\nOutside the claim: " + "; ".join(s["outside_claim"]) + ".")
    out.append("")
text = "\n".join(out) + "\n"
p = os.path.join(root, "DESIGN.md")
d = open(p).read()
m = re.search(r"\n## 15\. Harness inventory as built.*", d, re.S)
if m:
    d = d[:m.start()] + "\n" + text
else:
    d = d.rstrip("\n") + "\n\n---------------------------------------------------------------------------\n\n" + text
open(p, "w").write(d)
print("inventory written")

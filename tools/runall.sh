#!/bin/sh
# Development aid: run every registered check's quick tier in turn (rewrites evidence/*.json).
cd "$(dirname "$0")/.."
for id in $(python3 -c "import json; print(' '.join(c['property_id'] for c in json.load(open('MANIFEST.json'))['checks']))"); do
	./check "$id" quick 2>&1 | tail -1
done

package main

import (
	"bufio"
	"bytes"
	"encoding/json"
	"fmt"
	"os"
	osexec "os/exec"
	"path/filepath"
	"sort"
	"strconv"
	"strings"
	"time"

	"gosmt/internal/exec"
)

type nativeResult struct {
	Outcome string
	Obs     []string
	Reach   []string
}

// ReplayFile is what is stored under evidence/replay/ for a counterexample.
type ReplayFile struct {
	Property string              `json:"property"`
	Harness  string              `json:"harness"`
	Pkg      string              `json:"pkg"`
	Kind     string              `json:"kind"`
	Label    string              `json:"label"`
	Pos      string              `json:"pos,omitempty"`
	Case     exec.ValidationCase `json:"case"`
	Native   string              `json:"native_outcome,omitempty"`
}

// runNative compiles the harness package natively with the replay API and runs the cases.
func runNative(repo, verif string, spec *Spec, hdir string, ps PkgSpec, funcs []string, cases []exec.ValidationCase) ([]nativeResult, string, error) {
	tmp, err := os.MkdirTemp("", "gosmt-replay-")
	if err != nil {
		return nil, "", err
	}
	if os.Getenv("GOSMT_KEEP") != "" {
		fmt.Fprintln(os.Stderr, "keeping replay dir", tmp)
	} else {
		defer os.RemoveAll(tmp)
	}
	api, err := apiFile(verif, ps.Name, true)
	if err != nil {
		return nil, "", err
	}
	ov := map[string]string{}
	apiPath := filepath.Join(tmp, "api.go")
	os.WriteFile(apiPath, api, 0o644)
	ov[filepath.Join(repo, ps.Dir, "zz_verif_api.go")] = apiPath
	for _, f := range ps.Files {
		ov[filepath.Join(repo, ps.Dir, "zz_verif_"+filepath.Base(f))] = filepath.Join(hdir, f)
	}
	// harness files of the property's other packages (a harness may use exported helpers of another one)
	for i, hp := range spec.Packages {
		if hp.Path == ps.Path {
			continue
		}
		for _, f := range hp.Files {
			ov[filepath.Join(repo, hp.Dir, "zz_verif_"+filepath.Base(f))] = filepath.Join(hdir, f)
		}
		if !hp.Helper {
			oapi, err := apiFile(verif, hp.Name, true)
			if err != nil {
				return nil, "", err
			}
			oPath := filepath.Join(tmp, fmt.Sprintf("api%d.go", i))
			os.WriteFile(oPath, oapi, 0o644)
			ov[filepath.Join(repo, hp.Dir, "zz_verif_api.go")] = oPath
		}
	}
	for _, m := range strings.Split(os.Getenv("GOSMT_MUTANT"), ",") {
		if kv := strings.SplitN(m, "=", 2); len(kv) == 2 {
			ov[filepath.Join(repo, kv[0])] = kv[1]
		}
	}
	var tb strings.Builder
	fmt.Fprintf(&tb, "package %s\n\nimport \"testing\"\n\nfunc TestZZReplay(t *testing.T) {\n\tzzRunReplay(map[string]func(){\n", ps.Name)
	sort.Strings(funcs)
	for i, f := range funcs {
		if i > 0 && funcs[i-1] == f {
			continue
		}
		fmt.Fprintf(&tb, "\t\t%q: %s,\n", f, f)
	}
	tb.WriteString("\t})\n}\n")
	testPath := filepath.Join(tmp, "replay_test.go")
	os.WriteFile(testPath, []byte(tb.String()), 0o644)
	ov[filepath.Join(repo, ps.Dir, "zz_verif_replay_test.go")] = testPath
	ovb, _ := json.Marshal(map[string]interface{}{"Replace": ov})
	ovPath := filepath.Join(tmp, "overlay.json")
	os.WriteFile(ovPath, ovb, 0o644)
	cb, _ := json.Marshal(cases)
	casePath := filepath.Join(tmp, "cases.json")
	os.WriteFile(casePath, cb, 0o644)

	cmd := osexec.Command("go", "test", "-vet=off", "-count=1", "-timeout", "20m", "-overlay", ovPath, "-run", "^TestZZReplay$", "-v", "./"+ps.Dir+"/")
	cmd.Dir = repo
	cmd.Env = append(os.Environ(), "ZZ_REPLAY="+casePath, "GOFLAGS=-mod=mod", "GOPROXY=off")
	var out bytes.Buffer
	cmd.Stdout = &out
	cmd.Stderr = &out
	runErr := cmd.Run()
	res := make([]nativeResult, len(cases))
	outStr := out.String()
	sc := bufio.NewScanner(strings.NewReader(outStr))
	sc.Buffer(make([]byte, 1<<20), 1<<26)
	seen := 0
	for sc.Scan() {
		line := sc.Text()
		if i := strings.Index(line, "ZZRESULT "); i >= 0 {
			parts := strings.SplitN(line[i+9:], " ", 2)
			idx, err := strconv.Atoi(parts[0])
			if err == nil && idx < len(res) && len(parts) == 2 {
				res[idx].Outcome = parts[1]
				seen++
			}
		} else if i := strings.Index(line, "ZZOBS "); i >= 0 {
			parts := strings.SplitN(line[i+6:], " ", 2)
			idx, err := strconv.Atoi(parts[0])
			if err == nil && idx < len(res) && len(parts) == 2 {
				res[idx].Obs = append(res[idx].Obs, parts[1])
			}
		} else if i := strings.Index(line, "ZZREACH "); i >= 0 {
			parts := strings.SplitN(line[i+8:], " ", 2)
			idx, err := strconv.Atoi(parts[0])
			if err == nil && idx < len(res) && len(parts) == 2 {
				res[idx].Reach = append(res[idx].Reach, parts[1])
			}
		}
	}
	if seen < len(cases) {
		return res, outStr, fmt.Errorf("native replay produced %d of %d results (go test: %v)", seen, len(cases), runErr)
	}
	return res, outStr, nil
}

func expectMatches(expect, outcome string) bool {
	if expect == outcome {
		return true
	}
	if expect == "panic" && strings.HasPrefix(outcome, "panic:") {
		return true
	}
	return false
}

func loadKnown(verif string) []KnownFinding {
	b, err := os.ReadFile(filepath.Join(verif, "known_findings.json"))
	if err != nil {
		return nil
	}
	var k struct {
		Findings []KnownFinding `json:"findings"`
	}
	json.Unmarshal(b, &k)
	return k.Findings
}

func finish(spec *Spec, results []*exec.HarnessResult, prop, tier string, seed int, repo, verif string, loadT time.Duration, t0 time.Time, noEvidence, noReplay, partial bool) int {
	hdir := filepath.Join(verif, "harness", prop)
	pkgOf := map[string]PkgSpec{}
	for _, ps := range spec.Packages {
		pkgOf[ps.Path] = ps
	}
	funcsOf := map[string][]string{}
	for _, h := range spec.Harnesses {
		funcsOf[h.Pkg] = append(funcsOf[h.Pkg], h.Func)
	}
	inconclusive := []string{}
	type vio struct {
		v    *exec.Violation
		h    *exec.HarnessResult
		conf bool
		path string
		nat  string
	}
	var vios []*vio
	// group native cases per package
	type caseRef struct {
		kind string // "val" | "vio"
		h    *exec.HarnessResult
		vi   *vio
		vc   exec.ValidationCase
	}
	casesBy := map[string][]caseRef{}
	for _, r := range results {
		if len(r.Incomplete) > 0 {
			inconclusive = append(inconclusive, r.Spec.Name+": "+strings.Join(r.Incomplete, "; "))
		}
		// deduplicate violations by (kind,label,pos); keep at most 3 per group for replay
		seen := map[string]int{}
		sort.Slice(r.Violations, func(i, j int) bool { return len(r.Violations[i].Trace) < len(r.Violations[j].Trace) })
		for _, v := range r.Violations {
			key := v.Kind + "|" + v.Label + "|" + v.Pos
			seen[key]++
			if seen[key] > 2 {
				continue
			}
			x := &vio{v: v, h: r}
			vios = append(vios, x)
			exp := "panic"
			if v.Kind == "assert" {
				exp = "assert:" + v.Label
			}
			casesBy[r.Spec.Pkg] = append(casesBy[r.Spec.Pkg], caseRef{kind: "vio", h: r, vi: x,
				vc: exec.ValidationCase{Harness: r.Spec.Func, Inputs: v.Inputs, Expect: exp, Bounds: r.Spec.Bounds}})
			for _, alt := range v.Alt {
				casesBy[r.Spec.Pkg] = append(casesBy[r.Spec.Pkg], caseRef{kind: "vio", h: r, vi: x,
					vc: exec.ValidationCase{Harness: r.Spec.Func, Inputs: alt, Expect: exp, Bounds: r.Spec.Bounds}})
			}
		}
		for _, vc := range r.Validation {
			casesBy[r.Spec.Pkg] = append(casesBy[r.Spec.Pkg], caseRef{kind: "val", h: r, vc: vc})
		}
	}
	validated := map[string]int{}
	mismatches := []string{}
	if !noReplay {
		var pkgs []string
		for p := range casesBy {
			pkgs = append(pkgs, p)
		}
		sort.Strings(pkgs)
		for _, pk := range pkgs {
			refs := casesBy[pk]
			cases := make([]exec.ValidationCase, len(refs))
			for i, r := range refs {
				cases[i] = r.vc
			}
			nres, out, err := runNative(repo, verif, spec, hdir, pkgOf[pk], funcsOf[pk], cases)
			if err != nil {
				inconclusive = append(inconclusive, "native replay failed for "+pk+": "+err.Error())
				tail := out
				if len(tail) > 3000 {
					tail = tail[len(tail)-3000:]
				}
				fmt.Fprintln(os.Stderr, tail)
			}
			for i, r := range refs {
				nr := nres[i]
				switch r.kind {
				case "vio":
					if r.vi.conf {
						continue
					}
					r.vi.nat = nr.Outcome
					if nr.Outcome != "" && expectMatches(r.vc.Expect, nr.Outcome) {
						r.vi.conf = true
						r.vi.v.Inputs = r.vc.Inputs // the model that reproduced
					}
				case "val":
					if nr.Outcome == "" {
						continue
					}
					if strings.HasPrefix(nr.Outcome, "assert:") || strings.HasPrefix(nr.Outcome, "panic:") {
						// The native run of the real code on a sampled path model fails the
						// harness: a violation witnessed on concrete inputs (the symbolic
						// prediction differed only through an uninterpreted function or stub).
						kind, label := "assert", strings.TrimPrefix(nr.Outcome, "assert:")
						if strings.HasPrefix(nr.Outcome, "panic:") {
							kind, label = "panic", strings.TrimPrefix(nr.Outcome, "panic:")
						}
						vios = append(vios, &vio{v: &exec.Violation{Harness: r.h.Spec.Name, Kind: kind, Label: label, Inputs: r.vc.Inputs, Pos: "native run of a sampled path model"},
							h: r.h, conf: true, nat: nr.Outcome})
						continue
					}
					ok := nr.Outcome == "pass"
					if ok && len(nr.Obs) != len(r.vc.Obs) {
						ok = false
					}
					if ok {
						for j := range nr.Obs {
							want := r.vc.Obs[j]
							if strings.HasSuffix(want, "=?") {
								// value depends on an uninterpreted function: only the label is comparable
								if !strings.HasPrefix(nr.Obs[j], strings.TrimSuffix(want, "?")) {
									ok = false
								}
								continue
							}
							if nr.Obs[j] != want {
								ok = false
							}
						}
					}
					if ok {
						validated[r.h.Spec.Name]++
					} else {
						ib, _ := json.Marshal(r.vc.Inputs)
						mismatches = append(mismatches, fmt.Sprintf("%s: predicted pass obs=%v, native %s obs=%v inputs=%s", r.h.Spec.Name, r.vc.Obs, nr.Outcome, nr.Obs, ib))
					}
				}
			}
		}
	} else if len(vios) > 0 {
		inconclusive = append(inconclusive, "violations found but native replay disabled")
	}
	for _, m := range mismatches {
		inconclusive = append(inconclusive, "translator validation mismatch: "+m)
	}

	// classify violations
	known := loadKnown(verif)
	exit := 0
	nviol := 0
	os.MkdirAll(filepath.Join(verif, "evidence", "replay"), 0o755)
	n := 0
	knownPrinted := map[string]bool{}
	for _, x := range vios {
		if !x.conf {
			if !noReplay {
				ib, _ := json.Marshal(x.v.Inputs)
				inconclusive = append(inconclusive, fmt.Sprintf("%s: solver counterexample for %s %q did not reproduce natively (native outcome %q): encoding mismatch; inputs=%s", x.h.Spec.Name, x.v.Kind, x.v.Label, x.nat, ib))
			}
			continue
		}
		isKnown := false
		for _, k := range known {
			if k.Status == "known" && k.Property == prop && k.Harness == x.h.Spec.Name && k.Kind == x.v.Kind && (k.Label == x.v.Label || (k.Label != "" && strings.Contains(x.nat, k.Label))) {
				isKnown = true
				key := k.Harness + k.Label
				if !knownPrinted[key] {
					knownPrinted[key] = true
					fmt.Printf("KNOWN-FINDING: property=%s %s\n", prop, k.Description)
				}
			}
		}
		if isKnown {
			continue
		}
		n++
		nviol++
		rf := ReplayFile{Property: prop, Harness: x.h.Spec.Name, Pkg: x.h.Spec.Pkg, Kind: x.v.Kind, Label: x.v.Label, Pos: x.v.Pos, Native: x.nat,
			Case: exec.ValidationCase{Harness: x.h.Spec.Func, Inputs: x.v.Inputs, Expect: "", Bounds: x.h.Spec.Bounds}}
		rf.Case.Expect = "panic"
		if x.v.Kind == "assert" {
			rf.Case.Expect = "assert:" + x.v.Label
		}
		path := filepath.Join(verif, "evidence", "replay", fmt.Sprintf("%s-%s-%d.json", prop, x.h.Spec.Name, n))
		b, _ := json.MarshalIndent(rf, "", " ")
		os.WriteFile(path, b, 0o644)
		fmt.Printf("VIOLATION property=%s replay=%s\n", prop, path)
		fmt.Printf("  harness=%s kind=%s label=%q at=%s native=%q\n", x.h.Spec.Name, x.v.Kind, x.v.Label, x.v.Pos, x.nat)
		exit = 1
	}
	if exit == 0 && len(inconclusive) > 0 {
		exit = 2
	}
	for _, s := range inconclusive {
		fmt.Println("INCONCLUSIVE:", s)
	}
	if !noEvidence && !partial {
		writeEvidence(spec, results, prop, tier, seed, verif, loadT, t0, validated, nviol, inconclusive)
	}
	switch exit {
	case 0:
		fmt.Printf("OK property=%s tier=%s harnesses=%d wall=%.1fs\n", prop, tier, len(results), time.Since(t0).Seconds())
	case 2:
		fmt.Printf("INCONCLUSIVE property=%s tier=%s (no verdict)\n", prop, tier)
	}
	return exit
}

func writeEvidence(spec *Spec, results []*exec.HarnessResult, prop, tier string, seed int, verif string, loadT time.Duration, t0 time.Time, validated map[string]int, nviol int, inconclusive []string) {
	type hEv struct {
		Name       string         `json:"name"`
		Func       string         `json:"func"`
		What       string         `json:"what,omitempty"`
		Bounds     map[string]int `json:"bounds,omitempty"`
		MaxDepth   int            `json:"unwind_max_symbolic_decisions_per_path"`
		Paths      map[string]int `json:"paths"`
		MaxForks   int            `json:"deepest_path_decisions"`
		Steps      int64          `json:"ssa_instructions_executed"`
		Queries    int            `json:"solver_queries"`
		Unsat      int            `json:"unsat"`
		Sat        int            `json:"sat"`
		Unknown    int            `json:"unknown"`
		SolverS    float64        `json:"solver_time_s"`
		WallS      float64        `json:"wall_s"`
		Reached    []string       `json:"reach_labels_witnessed"`
		Validated  int            `json:"paths_validated_natively"`
		Incomplete []string       `json:"incomplete,omitempty"`
	}
	var hs []hEv
	states, trans, queries, vals := 0, int64(0), 0, 0
	funcs := map[string]string{}
	stubs := map[string]bool{}
	var samples []interface{}
	var solverS float64
	whatOf := map[string]string{}
	for _, h := range spec.Harnesses {
		whatOf[h.Name] = h.What
	}
	for _, r := range results {
		var reached []string
		for l := range r.Reached {
			reached = append(reached, l)
		}
		sort.Strings(reached)
		np := 0
		for _, c := range r.Paths {
			np += c
		}
		hs = append(hs, hEv{Name: r.Spec.Name, Func: r.Spec.Func, What: whatOf[r.Spec.Name], Bounds: r.Spec.Bounds, MaxDepth: r.Spec.MaxDepth, Paths: r.Paths, MaxForks: r.MaxForks,
			Steps: r.Steps, Queries: r.Solver.Queries, Unsat: r.Solver.Unsat, Sat: r.Solver.Sat, Unknown: r.Solver.Unknown,
			SolverS: r.Solver.SolveTime.Seconds(), WallS: r.Wall.Seconds(), Reached: reached, Validated: validated[r.Spec.Name], Incomplete: r.Incomplete})
		states += np
		trans += r.Steps
		queries += r.Solver.Queries
		solverS += r.Solver.SolveTime.Seconds()
		vals += validated[r.Spec.Name]
		for f, pos := range r.Funcs {
			if !strings.Contains(f, ".zz") {
				funcs[f] = pos
			}
		}
		for s := range r.Stubs {
			stubs[s] = true
		}
		for i, vc := range r.Validation {
			if i >= 2 {
				break
			}
			samples = append(samples, map[string]interface{}{"harness": r.Spec.Name, "path_model_inputs": vc.Inputs, "observations": vc.Obs, "reach": vc.Reach})
		}
	}
	var fl []string
	for f, pos := range funcs {
		if strings.Contains(pos, "?") {
			fl = append(fl, f)
		} else {
			fl = append(fl, f+" @ "+pos)
		}
	}
	sort.Strings(fl)
	var sl []string
	for s := range stubs {
		sl = append(sl, s)
	}
	sort.Strings(sl)
	if len(samples) == 0 {
		samples = append(samples, "no completed path produced a model")
	}
	if trans == 0 {
		trans = 1
	}
	if states == 0 {
		states = 1
	}
	ev := map[string]interface{}{
		"property_id": prop,
		"tier":        tier,
		"seed":        seed,
		"level":       "model_checking",
		"coverage": map[string]interface{}{
			"states":                        states,
			"transitions":                   trans,
			"traces_validated_against_impl": vals,
			"samples":                       samples,
			"explanation":                   "bounded symbolic execution of the real functions (go/ssa of the current tree) with every branch/assert/implicit run-time check decided by an SMT solver; states = symbolic paths explored to completion or to a decided end, transitions = SSA instructions executed symbolically",
			"harnesses":                     hs,
			"functions_encoded":             fl,
			"functions_encoded_count":       len(fl),
			"stubs_and_summaries":           sl,
			"solver_queries":                queries,
			"solver_time_s":                 solverS,
			"solver":                        "z3 5.1.0 (z3-new -in), one incremental session per path",
			"package_load_s":                loadT.Seconds(),
			"outside_claim":                 spec.Outside,
			"inconclusive":                  inconclusive,
			"exhaustive":                    false,
		},
		"assumptions": append(append([]string{}, spec.Assumptions...), spec.Trusted...),
		"wall_s":      time.Since(t0).Seconds(),
		"violations":  nviol,
	}
	b, _ := json.MarshalIndent(ev, "", " ")
	os.MkdirAll(filepath.Join(verif, "evidence"), 0o755)
	os.WriteFile(filepath.Join(verif, "evidence", prop+".json"), b, 0o644)
}

func cmdReplay(args []string) int {
	if len(args) < 1 {
		fmt.Fprintln(os.Stderr, "usage: gosmt replay <file> [--repo /repo] [--verif /verif]")
		return 2
	}
	repo, verif := "/repo", "/verif"
	b, err := os.ReadFile(args[0])
	if err != nil {
		fmt.Fprintln(os.Stderr, err)
		return 2
	}
	var rf ReplayFile
	if err := json.Unmarshal(b, &rf); err != nil {
		fmt.Fprintln(os.Stderr, err)
		return 2
	}
	spec, hdir, err := loadSpec(verif, rf.Property)
	if err != nil {
		fmt.Fprintln(os.Stderr, err)
		return 2
	}
	var ps PkgSpec
	for _, p := range spec.Packages {
		if p.Path == rf.Pkg {
			ps = p
		}
	}
	var funcs []string
	for _, h := range spec.Harnesses {
		if h.Pkg == rf.Pkg {
			funcs = append(funcs, h.Func)
		}
	}
	res, out, err := runNative(repo, verif, spec, hdir, ps, funcs, []exec.ValidationCase{rf.Case})
	if err != nil {
		fmt.Println(out)
		fmt.Fprintln(os.Stderr, err)
		return 2
	}
	fmt.Printf("native outcome: %s (expected %s)\n", res[0].Outcome, rf.Case.Expect)
	if expectMatches(rf.Case.Expect, res[0].Outcome) {
		fmt.Printf("VIOLATION property=%s replay=%s\n", rf.Property, args[0])
		return 1
	}
	return 0
}

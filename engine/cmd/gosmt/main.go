// gosmt: bounded symbolic execution of Go SSA with SMT back ends.
package main

import (
	"encoding/json"
	"flag"
	"fmt"
	"os"
	"path/filepath"
	"runtime"
	"sort"
	"strconv"
	"strings"
	"time"

	"gosmt/internal/exec"

	"golang.org/x/tools/go/packages"
	"golang.org/x/tools/go/ssa"
	"golang.org/x/tools/go/ssa/ssautil"
)

type PkgSpec struct {
	Path  string   `json:"path"`  // import path
	Dir   string   `json:"dir"`   // directory relative to the repo root
	Name  string   `json:"name"`  // package name
	Files []string `json:"files"` // harness files relative to the property's harness dir
	// Helper packages only receive extra (exported) construction helpers that a harness in
	// another package needs; they get no harness API and no replay test of their own.
	Helper bool `json:"helper"`
}

type TierSpec struct {
	Bounds   map[string]int `json:"bounds"`
	MaxPaths int            `json:"max_paths"`
	TimeoutS int            `json:"timeout_s"`
	Validate int            `json:"validate"`
	Skip     bool           `json:"skip"`
	MapPerms *bool          `json:"map_perms"`
	MaxDepth int            `json:"max_depth"`
	MaxAlloc int            `json:"max_alloc"`
}

type HSpec struct {
	exec.HarnessSpec
	Quick    *TierSpec `json:"quick"`
	Thorough *TierSpec `json:"thorough"`
	What     string    `json:"what"`
}

type Spec struct {
	Property    string    `json:"property"`
	Packages    []PkgSpec `json:"packages"`
	Harnesses   []*HSpec  `json:"harnesses"`
	Assumptions []string  `json:"assumptions"`
	Outside     []string  `json:"outside_claim"`
	Trusted     []string  `json:"trusted_base"`
}

type KnownFinding struct {
	Property    string `json:"property"`
	Harness     string `json:"harness"`
	Kind        string `json:"kind"`
	Label       string `json:"label"`
	Status      string `json:"status"` // known | fixed
	Commit      string `json:"commit,omitempty"`
	Description string `json:"description"`
}

func main() {
	if len(os.Args) < 2 {
		fmt.Fprintln(os.Stderr, "usage: gosmt check|replay ...")
		os.Exit(2)
	}
	switch os.Args[1] {
	case "check":
		os.Exit(cmdCheck(os.Args[2:]))
	case "replay":
		os.Exit(cmdReplay(os.Args[2:]))
	}
	fmt.Fprintln(os.Stderr, "unknown command", os.Args[1])
	os.Exit(2)
}

func loadSpec(verif, prop string) (*Spec, string, error) {
	dir := filepath.Join(verif, "harness", prop)
	b, err := os.ReadFile(filepath.Join(dir, "spec.json"))
	if err != nil {
		return nil, dir, err
	}
	var s Spec
	if err := json.Unmarshal(b, &s); err != nil {
		return nil, dir, fmt.Errorf("spec.json: %v", err)
	}
	return &s, dir, nil
}

func apiFile(verif, pkgName string, replay bool) ([]byte, error) {
	n := "zz_verif_api.go.tmpl"
	if replay {
		n = "zz_verif_api_replay.go.tmpl"
	}
	b, err := os.ReadFile(filepath.Join(verif, "harness", "common", n))
	if err != nil {
		return nil, err
	}
	return []byte(strings.ReplaceAll(string(b), "PKGNAME", pkgName)), nil
}

func cmdCheck(args []string) int {
	fs := flag.NewFlagSet("check", flag.ExitOnError)
	prop := fs.String("property", "", "property id")
	tier := fs.String("tier", "quick", "quick|thorough")
	repo := fs.String("repo", "/repo", "repository root")
	verif := fs.String("verif", "/verif", "verification root")
	seed := fs.Int("seed", 0, "seed")
	only := fs.String("only", "", "comma-separated harness names to run (development)")
	workers := fs.Int("workers", runtime.NumCPU(), "parallel workers")
	solver := fs.String("solver", "z3-new", "z3-new|z3|cvc5")
	verbose := fs.Bool("v", false, "verbose")
	noEvidence := fs.Bool("no-evidence", false, "do not write the evidence file (development)")
	noReplay := fs.Bool("no-replay", false, "skip native replay/validation (development; result is inconclusive at best)")
	fs.Parse(args)
	t0 := time.Now()

	spec, hdir, err := loadSpec(*verif, *prop)
	if err != nil {
		fmt.Fprintln(os.Stderr, "error:", err)
		return 2
	}
	// overlay
	overlay := map[string][]byte{}
	var pkgPaths []string
	for _, ps := range spec.Packages {
		pkgPaths = append(pkgPaths, ps.Path)
		if !ps.Helper {
			api, err := apiFile(*verif, ps.Name, false)
			if err != nil {
				fmt.Fprintln(os.Stderr, "error:", err)
				return 2
			}
			overlay[filepath.Join(*repo, ps.Dir, "zz_verif_api.go")] = api
		}
		for _, f := range ps.Files {
			b, err := os.ReadFile(filepath.Join(hdir, f))
			if err != nil {
				fmt.Fprintln(os.Stderr, "error:", err)
				return 2
			}
			overlay[filepath.Join(*repo, ps.Dir, "zz_verif_"+filepath.Base(f))] = b
		}
	}
	// development aid: layer mutated source files over the tree (never used by registered commands)
	for _, m := range strings.Split(os.Getenv("GOSMT_MUTANT"), ",") {
		if kv := strings.SplitN(m, "=", 2); len(kv) == 2 {
			b, err := os.ReadFile(kv[1])
			if err != nil {
				fmt.Fprintln(os.Stderr, "error:", err)
				return 2
			}
			overlay[filepath.Join(*repo, kv[0])] = b
		}
	}
	origPath := os.Getenv("PATH")
	os.Setenv("PATH", "/opt/veriftools/go1.26.8/bin:"+origPath)
	env := append(os.Environ(), "GOTOOLCHAIN=local", "GOFLAGS=-mod=mod", "GOPROXY=off")
	cfg := &packages.Config{Mode: packages.LoadAllSyntax, Dir: *repo, Overlay: overlay, Env: env}
	tl := time.Now()
	pkgs, err := packages.Load(cfg, pkgPaths...)
	os.Setenv("PATH", origPath)
	if err != nil {
		fmt.Fprintln(os.Stderr, "load error:", err)
		return 2
	}
	nerr := 0
	packages.Visit(pkgs, nil, func(p *packages.Package) {
		for _, e := range p.Errors {
			fmt.Fprintln(os.Stderr, "package error:", e)
			nerr++
		}
	})
	if nerr > 0 {
		fmt.Fprintln(os.Stderr, "INCONCLUSIVE: the tree (with harness overlay) does not type-check")
		return 2
	}
	prog, spkgs := ssautil.AllPackages(pkgs, ssa.InstantiateGenerics)
	byPath := map[string]*ssa.Package{}
	for i, p := range pkgs {
		if spkgs[i] != nil {
			spkgs[i].Build()
			byPath[p.PkgPath] = spkgs[i]
		}
	}
	loadT := time.Since(tl)
	eng := exec.NewEngine(prog, pkgs[0].Fset)
	eng.Solver = *solver
	eng.Verbose = *verbose

	onlySet := map[string]bool{}
	for _, n := range strings.Split(*only, ",") {
		if n != "" {
			onlySet[n] = true
		}
	}
	var results []*exec.HarnessResult
	for _, h := range spec.Harnesses {
		if len(onlySet) > 0 && !onlySet[h.Name] {
			continue
		}
		ts := h.Quick
		if *tier == "thorough" && h.Thorough != nil {
			ts = h.Thorough
		}
		hs := h.HarnessSpec // copy
		if ts != nil {
			if ts.Skip {
				continue
			}
			if ts.Bounds != nil {
				hs.Bounds = ts.Bounds
			}
			if ts.MaxPaths != 0 {
				hs.MaxPaths = ts.MaxPaths
			}
			if ts.TimeoutS != 0 {
				hs.TimeoutS = ts.TimeoutS
			}
			if ts.Validate != 0 {
				hs.Validate = ts.Validate
			}
			if ts.MapPerms != nil {
				hs.MapPerms = *ts.MapPerms
			}
			if ts.MaxDepth != 0 {
				hs.MaxDepth = ts.MaxDepth
			}
			if ts.MaxAlloc != 0 {
				hs.MaxAlloc = ts.MaxAlloc
			}
		}
		// development aid: cap every harness' time budget (a capped run that does not finish is inconclusive)
		if c, err := strconv.Atoi(os.Getenv("GOSMT_CAP_S")); err == nil && c > 0 && (hs.TimeoutS == 0 || hs.TimeoutS > c) {
			hs.TimeoutS = c
		}
		sp := byPath[hs.Pkg]
		if sp == nil {
			fmt.Fprintf(os.Stderr, "error: package %s not loaded\n", hs.Pkg)
			return 2
		}
		fn := sp.Func(hs.Func)
		if fn == nil {
			fmt.Fprintf(os.Stderr, "error: harness function %s not found in %s\n", hs.Func, hs.Pkg)
			return 2
		}
		th := time.Now()
		res := eng.RunHarness(&hs, fn, *workers)
		results = append(results, res)
		fmt.Printf("harness %-28s paths=%v violations=%d queries=%d solver=%.1fs wall=%.1fs %s\n", hs.Name, res.Paths,
			len(res.Violations), res.Solver.Queries, res.Solver.SolveTime.Seconds(), time.Since(th).Seconds(), strings.Join(res.Incomplete, "; "))
		if len(res.Msgs) > 0 {
			var ms []string
			for m, n := range res.Msgs {
				ms = append(ms, fmt.Sprintf("    %dx %s", n, m))
			}
			sort.Strings(ms)
			if len(ms) > 12 {
				ms = ms[:12]
			}
			fmt.Println(strings.Join(ms, "\n"))
		}
	}
	return finish(spec, results, *prop, *tier, *seed, *repo, *verif, loadT, t0, *noEvidence, *noReplay, len(onlySet) > 0)
}

package term

import "math/big"

// Integer encoding of bit-vector terms ("int mode").
//
// ToInt maps a term to an equivalent term that contains no bit-vector
// variables and (for the arithmetic fragment) no bit-vector operators: a
// bit-vector term of width w becomes an Int term whose value is the unsigned
// value of the original, every bit-vector variable x becomes an Int variable
// x!i constrained to [0, 2^w) (the solver driver emits the range when it
// declares the variable; IsShadow/ShadowWidth identify them), wrap-around is
// made explicit with ite/mod. Operators without an arithmetic reading
// (and/or/xor of two non-constant operands, symbolic shifts, signed division)
// are kept as bit-vector operators over int2bv of their translated operands,
// so the translation is always exact; it is merely not always "pure".

const shadowSuffix = "!i"

// IsShadow reports whether v is the Int stand-in of a bit-vector variable.
func IsShadow(v *T) bool {
	return v.Op == OVar && v.Sort.K == KInt && v.I > 0 && len(v.Name) > 2 && v.Name[len(v.Name)-2:] == shadowSuffix
}

// ShadowWidth is the width of the bit-vector variable a shadow stands for.
func ShadowWidth(v *T) int { return v.I }

func (f *Factory) shadow(v *T) *T {
	return f.intern(&T{Op: OVar, Sort: Int, Name: v.Name + shadowSuffix, I: v.Sort.W})
}

func (f *Factory) p2(n int) *T { return f.IntConst(new(big.Int).Lsh(big.NewInt(1), uint(n))) }

// ToInt returns the integer-encoded equivalent of t (see above).
func (f *Factory) ToInt(t *T) *T {
	if f.intMemo == nil {
		f.intMemo = map[*T]*T{}
	}
	if r, ok := f.intMemo[t]; ok {
		return r
	}
	r := f.toInt(t)
	f.intMemo[t] = r
	return r
}

// asBV gives back a bit-vector term for the (translated) argument a of width w.
func (f *Factory) asBV(a *T) *T { return f.Int2Bv(f.ToInt(a), a.Sort.W) }

func (f *Factory) signedOf(x *T, w int) *T {
	// x in [0,2^w) -> two's complement value
	return f.Ite(f.ILe(f.p2(w-1), x), f.ISub(x, f.p2(w)), x)
}

func (f *Factory) toInt(t *T) *T {
	switch t.Op {
	case OConst:
		if t.Sort.K == KBV {
			return f.IntConst(t.Val)
		}
		return t
	case OVar:
		if t.Sort.K == KBV {
			return f.shadow(t)
		}
		return t
	case OUF:
		args := make([]*T, len(t.Args))
		for i, a := range t.Args {
			switch a.Sort.K {
			case KBV:
				args[i] = f.asBV(a)
			default:
				args[i] = f.ToInt(a)
			}
		}
		u := f.intern(&T{Op: OUF, Sort: t.Sort, Name: t.Name, Args: args})
		u.UFDep = true
		if t.Sort.K == KBV {
			return f.mk(OBv2Nat, Int, u)
		}
		return u
	case ONot:
		return f.Not(f.ToInt(t.Args[0]))
	case OAnd:
		r := f.True()
		for _, a := range t.Args {
			r = f.And(r, f.ToInt(a))
		}
		return r
	case OOr:
		r := f.False()
		for _, a := range t.Args {
			r = f.Or(r, f.ToInt(a))
		}
		return r
	case OXorB:
		return f.Not(f.Eq(f.ToInt(t.Args[0]), f.ToInt(t.Args[1])))
	case OIte:
		return f.Ite(f.ToInt(t.Args[0]), f.ToInt(t.Args[1]), f.ToInt(t.Args[2]))
	case OEq:
		return f.Eq(f.ToInt(t.Args[0]), f.ToInt(t.Args[1]))
	case OBvUlt:
		return f.ILt(f.ToInt(t.Args[0]), f.ToInt(t.Args[1]))
	case OBvUle:
		return f.ILe(f.ToInt(t.Args[0]), f.ToInt(t.Args[1]))
	case OBvSlt:
		w := t.Args[0].Sort.W
		return f.ILt(f.signedOf(f.ToInt(t.Args[0]), w), f.signedOf(f.ToInt(t.Args[1]), w))
	case OBvSle:
		w := t.Args[0].Sort.W
		return f.ILe(f.signedOf(f.ToInt(t.Args[0]), w), f.signedOf(f.ToInt(t.Args[1]), w))
	case OIAdd, OISub, OIMul, OIDiv, OIMod:
		return f.ibin(t.Op, f.ToInt(t.Args[0]), f.ToInt(t.Args[1]))
	case OINeg:
		return f.INeg(f.ToInt(t.Args[0]))
	case OILt:
		return f.ILt(f.ToInt(t.Args[0]), f.ToInt(t.Args[1]))
	case OILe:
		return f.ILe(f.ToInt(t.Args[0]), f.ToInt(t.Args[1]))
	case OBv2Nat:
		return f.ToInt(t.Args[0])
	case OInt2Bv:
		return f.IMod(f.ToInt(t.Args[0]), f.p2(t.I))
	}
	// bit-vector operators
	w := t.Sort.W
	zero := f.IntConst64(0)
	switch t.Op {
	case OBvAdd:
		s := f.IAdd(f.ToInt(t.Args[0]), f.ToInt(t.Args[1]))
		return f.Ite(f.ILe(f.p2(w), s), f.ISub(s, f.p2(w)), s)
	case OBvSub:
		d := f.ISub(f.ToInt(t.Args[0]), f.ToInt(t.Args[1]))
		return f.Ite(f.ILt(d, zero), f.IAdd(d, f.p2(w)), d)
	case OBvMul:
		return f.IMod(f.IMul(f.ToInt(t.Args[0]), f.ToInt(t.Args[1])), f.p2(w))
	case OBvUDiv:
		a, b := f.ToInt(t.Args[0]), f.ToInt(t.Args[1])
		if b.IsConst() && b.Val.Sign() != 0 {
			return f.IDiv(a, b)
		}
		return f.Ite(f.Eq(b, zero), f.ISub(f.p2(w), f.IntConst64(1)), f.IDiv(a, b))
	case OBvURem:
		a, b := f.ToInt(t.Args[0]), f.ToInt(t.Args[1])
		if b.IsConst() && b.Val.Sign() != 0 {
			return f.IMod(a, b)
		}
		return f.Ite(f.Eq(b, zero), a, f.IMod(a, b))
	case OBvNeg:
		a := f.ToInt(t.Args[0])
		return f.Ite(f.Eq(a, zero), zero, f.ISub(f.p2(w), a))
	case OBvNot:
		return f.ISub(f.ISub(f.p2(w), f.IntConst64(1)), f.ToInt(t.Args[0]))
	case OBvShl:
		if k := t.Args[1]; k.IsConst() {
			if k.Val.Cmp(big.NewInt(int64(w))) >= 0 {
				return zero
			}
			return f.IMod(f.IMul(f.ToInt(t.Args[0]), f.p2(int(k.Val.Int64()))), f.p2(w))
		}
	case OBvLShr:
		if k := t.Args[1]; k.IsConst() {
			if k.Val.Cmp(big.NewInt(int64(w))) >= 0 {
				return zero
			}
			return f.IDiv(f.ToInt(t.Args[0]), f.p2(int(k.Val.Int64())))
		}
	case OBvAnd:
		// x & (2^k - 1)
		for i := 0; i < 2; i++ {
			if m := t.Args[i]; m.IsConst() {
				m1 := new(big.Int).Add(m.Val, big.NewInt(1))
				if m1.BitLen() > 0 && new(big.Int).And(m1, m.Val).Sign() == 0 { // m+1 is a power of two
					return f.IMod(f.ToInt(t.Args[1-i]), f.IntConst(m1))
				}
			}
		}
	case OConcat:
		return f.IAdd(f.IMul(f.ToInt(t.Args[0]), f.p2(t.Args[1].Sort.W)), f.ToInt(t.Args[1]))
	case OExtract:
		a := f.ToInt(t.Args[0])
		if t.J > 0 {
			a = f.IDiv(a, f.p2(t.J))
		}
		if t.I+1 < t.Args[0].Sort.W {
			a = f.IMod(a, f.p2(t.I-t.J+1))
		}
		return a
	case OZExt:
		return f.ToInt(t.Args[0])
	case OSExt:
		a := f.ToInt(t.Args[0])
		aw := t.Args[0].Sort.W
		return f.Ite(f.ILe(f.p2(aw-1), a), f.IAdd(a, f.IntConst(new(big.Int).Sub(pow2i(w), pow2i(aw)))), a)
	}
	// fallback: keep the operator over int2bv of the translated operands
	args := make([]*T, len(t.Args))
	for i, a := range t.Args {
		if a.Sort.K == KBV {
			args[i] = f.asBV(a)
		} else {
			args[i] = f.ToInt(a)
		}
	}
	n := f.intern(&T{Op: t.Op, Sort: t.Sort, Args: args, I: t.I, J: t.J})
	return f.mk(OBv2Nat, Int, n)
}

func pow2i(n int) *big.Int { return new(big.Int).Lsh(big.NewInt(1), uint(n)) }

// Package term implements hash-consed SMT terms (Bool, bit-vectors,
// mathematical integers) with simplifying smart constructors.
package term

import (
	"fmt"
	"math/big"
	"strconv"
	"strings"
)

type Kind uint8

const (
	KBool Kind = iota
	KBV
	KInt
)

type Sort struct {
	K Kind
	W int // bit width for KBV
}

var Bool = Sort{K: KBool}
var Int = Sort{K: KInt}

func BV(w int) Sort { return Sort{K: KBV, W: w} }

func (s Sort) String() string {
	switch s.K {
	case KBool:
		return "Bool"
	case KInt:
		return "Int"
	}
	return "(_ BitVec " + strconv.Itoa(s.W) + ")"
}

type Op uint8

const (
	OConst Op = iota
	OVar
	OUF // uninterpreted function application; Name = function name
	ONot
	OAnd
	OOr
	OXorB // boolean xor
	OIte
	OEq
	// BV
	OBvAdd
	OBvSub
	OBvMul
	OBvUDiv
	OBvURem
	OBvSDiv
	OBvSRem
	OBvAnd
	OBvOr
	OBvXor
	OBvNot
	OBvNeg
	OBvShl
	OBvLShr
	OBvAShr
	OBvUlt
	OBvUle
	OBvSlt
	OBvSle
	OConcat
	OExtract // I=hi J=lo
	OZExt    // I=extra bits
	OSExt
	// Int
	OIAdd
	OISub
	OIMul
	OIDiv // SMT div (floor for positive divisor)
	OIMod
	OINeg
	OILt
	OILe
	OBv2Nat
	OInt2Bv // I = width
)

var opName = map[Op]string{
	ONot: "not", OAnd: "and", OOr: "or", OXorB: "xor", OIte: "ite", OEq: "=",
	OBvAdd: "bvadd", OBvSub: "bvsub", OBvMul: "bvmul", OBvUDiv: "bvudiv", OBvURem: "bvurem",
	OBvSDiv: "bvsdiv", OBvSRem: "bvsrem", OBvAnd: "bvand", OBvOr: "bvor", OBvXor: "bvxor",
	OBvNot: "bvnot", OBvNeg: "bvneg", OBvShl: "bvshl", OBvLShr: "bvlshr", OBvAShr: "bvashr",
	OBvUlt: "bvult", OBvUle: "bvule", OBvSlt: "bvslt", OBvSle: "bvsle", OConcat: "concat",
	OIAdd: "+", OISub: "-", OIMul: "*", OIDiv: "div", OIMod: "mod", OINeg: "-", OILt: "<", OILe: "<=",
	OBv2Nat: "bv2nat",
}

type T struct {
	Op   Op
	Sort Sort
	Args []*T
	Val  *big.Int // OConst (Bool: 0/1; BV: unsigned; Int: signed)
	Name string   // OVar, OUF
	I, J int
	ID   int
	// UFDep: the term contains an application of an uninterpreted function
	// (its value under a solver model is not comparable with a native run).
	UFDep bool
}

// Factory hash-conses terms. Not safe for concurrent use.
type Factory struct {
	tab  map[string]*T
	next int
	vars []*T
	ufs  map[string]*UFDecl
	ufl  []*UFDecl
	intMemo map[*T]*T
}

type UFDecl struct {
	Name string
	Args []Sort
	Ret  Sort
}

func NewFactory() *Factory {
	return &Factory{tab: map[string]*T{}, ufs: map[string]*UFDecl{}}
}

func (f *Factory) Size() int { return f.next }

func (f *Factory) intern(t *T) *T {
	var sb strings.Builder
	sb.WriteByte(byte(t.Op))
	sb.WriteByte(byte(t.Sort.K))
	sb.WriteString(strconv.Itoa(t.Sort.W))
	sb.WriteByte('|')
	for _, a := range t.Args {
		sb.WriteString(strconv.Itoa(a.ID))
		sb.WriteByte(',')
	}
	if t.Val != nil {
		sb.WriteString(t.Val.Text(16))
	}
	sb.WriteByte('|')
	sb.WriteString(t.Name)
	if t.I != 0 || t.J != 0 {
		sb.WriteByte('|')
		sb.WriteString(strconv.Itoa(t.I))
		sb.WriteByte(',')
		sb.WriteString(strconv.Itoa(t.J))
	}
	k := sb.String()
	if x, ok := f.tab[k]; ok {
		return x
	}
	t.ID = f.next
	t.UFDep = t.Op == OUF
	for _, a := range t.Args {
		if a.UFDep {
			t.UFDep = true
		}
	}
	f.next++
	f.tab[k] = t
	if t.Op == OVar {
		f.vars = append(f.vars, t)
	}
	return t
}

func (t *T) IsConst() bool { return t.Op == OConst }
func (t *T) IsTrue() bool  { return t.Op == OConst && t.Sort.K == KBool && t.Val.Sign() != 0 }
func (t *T) IsFalse() bool { return t.Op == OConst && t.Sort.K == KBool && t.Val.Sign() == 0 }

// Uint64 returns the constant value (must be const and fit).
func (t *T) Uint64() uint64 { return t.Val.Uint64() }

// SignedVal returns the constant interpreted as signed (BV) or as is (Int).
func (t *T) SignedVal() *big.Int {
	if t.Sort.K == KBV && t.Val.Bit(t.Sort.W-1) == 1 {
		return new(big.Int).Sub(t.Val, new(big.Int).Lsh(big.NewInt(1), uint(t.Sort.W)))
	}
	return t.Val
}

var one = big.NewInt(1)

func mask(w int) *big.Int {
	m := new(big.Int).Lsh(one, uint(w))
	return m.Sub(m, one)
}

func norm(v *big.Int, w int) *big.Int {
	r := new(big.Int).And(v, mask(w)) // And on negative big.Int uses two's complement semantics
	return r
}

func (f *Factory) True() *T  { return f.BoolConst(true) }
func (f *Factory) False() *T { return f.BoolConst(false) }
func (f *Factory) BoolConst(b bool) *T {
	v := big.NewInt(0)
	if b {
		v = big.NewInt(1)
	}
	return f.intern(&T{Op: OConst, Sort: Bool, Val: v})
}
func (f *Factory) BVConst(v *big.Int, w int) *T {
	return f.intern(&T{Op: OConst, Sort: BV(w), Val: norm(v, w)})
}
func (f *Factory) BVConst64(v uint64, w int) *T {
	return f.BVConst(new(big.Int).SetUint64(v), w)
}
func (f *Factory) BVConstI(v int64, w int) *T {
	return f.BVConst(big.NewInt(v), w)
}
func (f *Factory) IntConst(v *big.Int) *T {
	return f.intern(&T{Op: OConst, Sort: Int, Val: new(big.Int).Set(v)})
}
func (f *Factory) IntConst64(v int64) *T { return f.IntConst(big.NewInt(v)) }

func (f *Factory) Var(name string, s Sort) *T {
	return f.intern(&T{Op: OVar, Sort: s, Name: name})
}

func (f *Factory) DeclareUF(name string, args []Sort, ret Sort) {
	if _, ok := f.ufs[name]; !ok {
		d := &UFDecl{name, args, ret}
		f.ufs[name] = d
		f.ufl = append(f.ufl, d)
	}
}
func (f *Factory) UFs() []*UFDecl { return f.ufl }

func (f *Factory) UF(name string, ret Sort, args ...*T) *T {
	if _, ok := f.ufs[name]; !ok {
		var as []Sort
		for _, a := range args {
			as = append(as, a.Sort)
		}
		f.DeclareUF(name, as, ret)
	}
	return f.intern(&T{Op: OUF, Sort: ret, Name: name, Args: args})
}

func (f *Factory) mk(op Op, s Sort, args ...*T) *T {
	return f.intern(&T{Op: op, Sort: s, Args: args})
}

// ---------- Boolean ----------

func (f *Factory) Not(a *T) *T {
	if a.IsConst() {
		return f.BoolConst(a.Val.Sign() == 0)
	}
	if a.Op == ONot {
		return a.Args[0]
	}
	return f.mk(ONot, Bool, a)
}

func (f *Factory) And(a, b *T) *T {
	if a.IsFalse() || b.IsFalse() {
		return f.False()
	}
	if a.IsTrue() {
		return b
	}
	if b.IsTrue() {
		return a
	}
	if a == b {
		return a
	}
	if f.Not(a) == b {
		return f.False()
	}
	if a.ID > b.ID {
		a, b = b, a
	}
	return f.mk(OAnd, Bool, a, b)
}

func (f *Factory) Or(a, b *T) *T {
	if a.IsTrue() || b.IsTrue() {
		return f.True()
	}
	if a.IsFalse() {
		return b
	}
	if b.IsFalse() {
		return a
	}
	if a == b {
		return a
	}
	if f.Not(a) == b {
		return f.True()
	}
	if a.ID > b.ID {
		a, b = b, a
	}
	return f.mk(OOr, Bool, a, b)
}

func (f *Factory) Implies(a, b *T) *T { return f.Or(f.Not(a), b) }

func (f *Factory) AndN(xs ...*T) *T {
	r := f.True()
	for _, x := range xs {
		r = f.And(r, x)
	}
	return r
}

func (f *Factory) Ite(c, a, b *T) *T {
	if c.IsTrue() {
		return a
	}
	if c.IsFalse() {
		return b
	}
	if a == b {
		return a
	}
	if a.Sort != b.Sort {
		panic(fmt.Sprintf("ite sort mismatch %v %v", a.Sort, b.Sort))
	}
	if a.Sort.K == KBool {
		if a.IsTrue() && b.IsFalse() {
			return c
		}
		if a.IsFalse() && b.IsTrue() {
			return f.Not(c)
		}
		if a.IsTrue() {
			return f.Or(c, b)
		}
		if a.IsFalse() {
			return f.And(f.Not(c), b)
		}
		if b.IsTrue() {
			return f.Or(f.Not(c), a)
		}
		if b.IsFalse() {
			return f.And(c, a)
		}
	}
	if c.Op == ONot {
		return f.Ite(c.Args[0], b, a)
	}
	// ite(c, x, ite(c, y, z)) = ite(c, x, z)
	if b.Op == OIte && b.Args[0] == c {
		return f.Ite(c, a, b.Args[2])
	}
	if a.Op == OIte && a.Args[0] == c {
		return f.Ite(c, a.Args[1], b)
	}
	return f.mk(OIte, a.Sort, c, a, b)
}

func (f *Factory) Eq(a, b *T) *T {
	if a == b {
		return f.True()
	}
	if a.Sort != b.Sort {
		panic(fmt.Sprintf("eq sort mismatch %v %v (%s vs %s)", a.Sort, b.Sort, a, b))
	}
	if a.IsConst() && b.IsConst() {
		return f.BoolConst(a.Val.Cmp(b.Val) == 0)
	}
	if a.Sort.K == KBool {
		if a.IsTrue() {
			return b
		}
		if a.IsFalse() {
			return f.Not(b)
		}
		if b.IsTrue() {
			return a
		}
		if b.IsFalse() {
			return f.Not(a)
		}
	}
	// eq(ite(c,k1,k2), k) with constants
	if b.IsConst() && a.Op == OIte {
		a, b = b, a
	}
	if a.IsConst() && b.Op == OIte && (b.Args[1].IsConst() || b.Args[2].IsConst()) {
		return f.Ite(b.Args[0], f.Eq(a, b.Args[1]), f.Eq(a, b.Args[2]))
	}
	// eq(zext(x), const)
	if a.IsConst() && b.Op == OZExt {
		w := b.Args[0].Sort.W
		if a.Val.BitLen() > w {
			return f.False()
		}
		return f.Eq(f.BVConst(a.Val, w), b.Args[0])
	}
	if a.ID > b.ID {
		a, b = b, a
	}
	return f.mk(OEq, Bool, a, b)
}

func (f *Factory) Ne(a, b *T) *T { return f.Not(f.Eq(a, b)) }

// ---------- BV ----------

func (f *Factory) bin(op Op, a, b *T) *T {
	if a.Sort != b.Sort {
		panic(fmt.Sprintf("%s sort mismatch %v %v", opName[op], a.Sort, b.Sort))
	}
	w := a.Sort.W
	if a.IsConst() && b.IsConst() {
		if r := foldBV(op, a, b, w); r != nil {
			return f.BVConst(r, w)
		}
	}
	zero := func(t *T) bool { return t.IsConst() && t.Val.Sign() == 0 }
	allOnes := func(t *T) bool { return t.IsConst() && t.Val.Cmp(mask(w)) == 0 }
	isOne := func(t *T) bool { return t.IsConst() && t.Val.Cmp(one) == 0 }
	switch op {
	case OBvAdd:
		if zero(a) {
			return b
		}
		if zero(b) {
			return a
		}
		// (x + c1) + c2
		if b.IsConst() && a.Op == OBvAdd && a.Args[1].IsConst() {
			return f.bin(OBvAdd, a.Args[0], f.BVConst(new(big.Int).Add(a.Args[1].Val, b.Val), w))
		}
		if a.IsConst() && !b.IsConst() {
			a, b = b, a
		}
	case OBvSub:
		if zero(b) {
			return a
		}
		if a == b {
			return f.BVConst64(0, w)
		}
		if b.IsConst() {
			return f.bin(OBvAdd, a, f.BVConst(new(big.Int).Neg(b.Val), w))
		}
	case OBvMul:
		if zero(a) || zero(b) {
			return f.BVConst64(0, w)
		}
		if isOne(a) {
			return b
		}
		if isOne(b) {
			return a
		}
		if a.IsConst() && !b.IsConst() {
			a, b = b, a
		}
	case OBvAnd:
		if zero(a) || zero(b) {
			return f.BVConst64(0, w)
		}
		if allOnes(a) {
			return b
		}
		if allOnes(b) {
			return a
		}
		if a == b {
			return a
		}
		if a.IsConst() && !b.IsConst() {
			a, b = b, a
		}
		// (zext x) & mask where mask covers x: -> zext x
		if b.IsConst() && a.Op == OZExt {
			xw := a.Args[0].Sort.W
			if new(big.Int).And(b.Val, mask(xw)).Cmp(mask(xw)) == 0 {
				return a
			}
		}
		// low-bit mask: x & (2^k-1) = zext(extract(k-1,0,x))
		if b.IsConst() {
			k := b.Val.BitLen()
			if k < w && b.Val.Cmp(mask(k)) == 0 {
				return f.ZExt(f.Extract(a, k-1, 0), w-k)
			}
		}
	case OBvOr:
		if zero(a) {
			return b
		}
		if zero(b) {
			return a
		}
		if allOnes(a) || allOnes(b) {
			return f.BVConst(mask(w), w)
		}
		if a == b {
			return a
		}
	case OBvXor:
		if zero(a) {
			return b
		}
		if zero(b) {
			return a
		}
		if a == b {
			return f.BVConst64(0, w)
		}
	case OBvShl, OBvLShr:
		if zero(b) {
			return a
		}
		if zero(a) {
			return a
		}
		if b.IsConst() {
			if b.Val.Cmp(big.NewInt(int64(w))) >= 0 {
				return f.BVConst64(0, w)
			}
			k := int(b.Val.Int64())
			if op == OBvLShr {
				return f.ZExt(f.Extract(a, w-1, k), k)
			}
			return f.Concat(f.Extract(a, w-1-k, 0), f.BVConst64(0, k))
		}
	case OBvAShr:
		if zero(b) {
			return a
		}
	case OBvUDiv:
		if isOne(b) {
			return a
		}
		if b.IsConst() && b.Val.Sign() > 0 && new(big.Int).And(b.Val, new(big.Int).Sub(b.Val, one)).Sign() == 0 {
			return f.bin(OBvLShr, a, f.BVConst64(uint64(b.Val.BitLen()-1), w))
		}
	case OBvURem:
		if isOne(b) {
			return f.BVConst64(0, w)
		}
		if b.IsConst() && b.Val.Sign() > 0 && new(big.Int).And(b.Val, new(big.Int).Sub(b.Val, one)).Sign() == 0 {
			return f.bin(OBvAnd, a, f.BVConst(new(big.Int).Sub(b.Val, one), w))
		}
	}
	switch op {
	case OBvAdd, OBvMul, OBvAnd, OBvOr, OBvXor:
		// commutative: canonical operand order (constants last)
		if !a.IsConst() && !b.IsConst() && a.ID > b.ID {
			a, b = b, a
		}
	}
	return f.mk(op, a.Sort, a, b)
}

func toSigned(v *big.Int, w int) *big.Int {
	if v.Bit(w-1) == 1 {
		return new(big.Int).Sub(v, new(big.Int).Lsh(one, uint(w)))
	}
	return new(big.Int).Set(v)
}

func foldBV(op Op, a, b *T, w int) *big.Int {
	x, y := a.Val, b.Val
	r := new(big.Int)
	switch op {
	case OBvAdd:
		return r.Add(x, y)
	case OBvSub:
		return r.Sub(x, y)
	case OBvMul:
		return r.Mul(x, y)
	case OBvAnd:
		return r.And(x, y)
	case OBvOr:
		return r.Or(x, y)
	case OBvXor:
		return r.Xor(x, y)
	case OBvUDiv:
		if y.Sign() == 0 {
			return mask(w)
		}
		return r.Quo(x, y)
	case OBvURem:
		if y.Sign() == 0 {
			return x
		}
		return r.Rem(x, y)
	case OBvSDiv:
		if y.Sign() == 0 {
			return nil
		}
		return r.Quo(toSigned(x, w), toSigned(y, w))
	case OBvSRem:
		if y.Sign() == 0 {
			return nil
		}
		return r.Rem(toSigned(x, w), toSigned(y, w))
	case OBvShl:
		if y.Cmp(big.NewInt(int64(w))) >= 0 {
			return r
		}
		return r.Lsh(x, uint(y.Int64()))
	case OBvLShr:
		if y.Cmp(big.NewInt(int64(w))) >= 0 {
			return r
		}
		return r.Rsh(x, uint(y.Int64()))
	case OBvAShr:
		s := toSigned(x, w)
		if y.Cmp(big.NewInt(int64(w))) >= 0 {
			if s.Sign() < 0 {
				return big.NewInt(-1)
			}
			return r
		}
		return r.Rsh(s, uint(y.Int64()))
	}
	return nil
}

func (f *Factory) BvAdd(a, b *T) *T  { return f.bin(OBvAdd, a, b) }
func (f *Factory) BvSub(a, b *T) *T  { return f.bin(OBvSub, a, b) }
func (f *Factory) BvMul(a, b *T) *T  { return f.bin(OBvMul, a, b) }
func (f *Factory) BvUDiv(a, b *T) *T { return f.bin(OBvUDiv, a, b) }
func (f *Factory) BvURem(a, b *T) *T { return f.bin(OBvURem, a, b) }
func (f *Factory) BvSDiv(a, b *T) *T { return f.bin(OBvSDiv, a, b) }
func (f *Factory) BvSRem(a, b *T) *T { return f.bin(OBvSRem, a, b) }
func (f *Factory) BvAnd(a, b *T) *T  { return f.bin(OBvAnd, a, b) }
func (f *Factory) BvOr(a, b *T) *T   { return f.bin(OBvOr, a, b) }
func (f *Factory) BvXor(a, b *T) *T  { return f.bin(OBvXor, a, b) }
func (f *Factory) BvShl(a, b *T) *T  { return f.bin(OBvShl, a, b) }
func (f *Factory) BvLShr(a, b *T) *T { return f.bin(OBvLShr, a, b) }
func (f *Factory) BvAShr(a, b *T) *T { return f.bin(OBvAShr, a, b) }

func (f *Factory) BvNot(a *T) *T {
	if a.IsConst() {
		return f.BVConst(new(big.Int).Xor(a.Val, mask(a.Sort.W)), a.Sort.W)
	}
	if a.Op == OBvNot {
		return a.Args[0]
	}
	return f.mk(OBvNot, a.Sort, a)
}
func (f *Factory) BvNeg(a *T) *T {
	if a.IsConst() {
		return f.BVConst(new(big.Int).Neg(a.Val), a.Sort.W)
	}
	return f.mk(OBvNeg, a.Sort, a)
}

func (f *Factory) cmp(op Op, a, b *T) *T {
	if a.Sort != b.Sort {
		panic(fmt.Sprintf("%s sort mismatch %v %v", opName[op], a.Sort, b.Sort))
	}
	w := a.Sort.W
	if a.IsConst() && b.IsConst() {
		var c int
		if op == OBvUlt || op == OBvUle {
			c = a.Val.Cmp(b.Val)
		} else {
			c = toSigned(a.Val, w).Cmp(toSigned(b.Val, w))
		}
		if op == OBvUlt || op == OBvSlt {
			return f.BoolConst(c < 0)
		}
		return f.BoolConst(c <= 0)
	}
	if a == b {
		return f.BoolConst(op == OBvUle || op == OBvSle)
	}
	switch op {
	case OBvUlt:
		if b.IsConst() && b.Val.Sign() == 0 {
			return f.False()
		}
		if a.IsConst() && a.Val.Cmp(mask(w)) == 0 {
			return f.False()
		}
		// zext(x) < const where const > max(x)
		if b.IsConst() && a.Op == OZExt && b.Val.BitLen() > a.Args[0].Sort.W {
			return f.True()
		}
	case OBvUle:
		if a.IsConst() && a.Val.Sign() == 0 {
			return f.True()
		}
		if b.IsConst() && b.Val.Cmp(mask(w)) == 0 {
			return f.True()
		}
		if b.IsConst() && a.Op == OZExt && b.Val.BitLen() > a.Args[0].Sort.W {
			return f.True()
		}
	}
	// comparisons over two zero-extensions of same inner width reduce
	if a.Op == OZExt && b.Op == OZExt && a.Args[0].Sort == b.Args[0].Sort {
		switch op {
		case OBvUlt, OBvSlt:
			return f.cmp(OBvUlt, a.Args[0], b.Args[0])
		default:
			return f.cmp(OBvUle, a.Args[0], b.Args[0])
		}
	}
	return f.mk(op, Bool, a, b)
}

func (f *Factory) BvUlt(a, b *T) *T { return f.cmp(OBvUlt, a, b) }
func (f *Factory) BvUle(a, b *T) *T { return f.cmp(OBvUle, a, b) }
func (f *Factory) BvSlt(a, b *T) *T { return f.cmp(OBvSlt, a, b) }
func (f *Factory) BvSle(a, b *T) *T { return f.cmp(OBvSle, a, b) }
func (f *Factory) BvUgt(a, b *T) *T { return f.cmp(OBvUlt, b, a) }
func (f *Factory) BvUge(a, b *T) *T { return f.cmp(OBvUle, b, a) }
func (f *Factory) BvSgt(a, b *T) *T { return f.cmp(OBvSlt, b, a) }
func (f *Factory) BvSge(a, b *T) *T { return f.cmp(OBvSle, b, a) }

// Concat: a is the high part.
func (f *Factory) Concat(a, b *T) *T {
	w := a.Sort.W + b.Sort.W
	if a.IsConst() && b.IsConst() {
		v := new(big.Int).Lsh(a.Val, uint(b.Sort.W))
		v.Or(v, b.Val)
		return f.BVConst(v, w)
	}
	// concat(extract(h,m+1,x), extract(m,l,x)) = extract(h,l,x)
	if a.Op == OExtract && b.Op == OExtract && a.Args[0] == b.Args[0] && a.J == b.I+1 {
		return f.Extract(a.Args[0], a.I, b.J)
	}
	if a.IsConst() && a.Val.Sign() == 0 {
		return f.ZExt(b, a.Sort.W)
	}
	return f.mk(OConcat, BV(w), a, b)
}

func (f *Factory) Extract(a *T, hi, lo int) *T {
	w := a.Sort.W
	if hi >= w || lo < 0 || hi < lo {
		panic(fmt.Sprintf("bad extract %d %d of width %d", hi, lo, w))
	}
	if lo == 0 && hi == w-1 {
		return a
	}
	nw := hi - lo + 1
	if a.IsConst() {
		return f.BVConst(new(big.Int).Rsh(a.Val, uint(lo)), nw)
	}
	switch a.Op {
	case OExtract:
		return f.Extract(a.Args[0], a.J+hi, a.J+lo)
	case OConcat:
		lw := a.Args[1].Sort.W
		if hi < lw {
			return f.Extract(a.Args[1], hi, lo)
		}
		if lo >= lw {
			return f.Extract(a.Args[0], hi-lw, lo-lw)
		}
		return f.Concat(f.Extract(a.Args[0], hi-lw, 0), f.Extract(a.Args[1], lw-1, lo))
	case OZExt:
		iw := a.Args[0].Sort.W
		if hi < iw {
			return f.Extract(a.Args[0], hi, lo)
		}
		if lo >= iw {
			return f.BVConst64(0, nw)
		}
		return f.ZExt(f.Extract(a.Args[0], iw-1, lo), hi-iw+1)
	case OSExt:
		iw := a.Args[0].Sort.W
		if hi < iw {
			return f.Extract(a.Args[0], hi, lo)
		}
	case OBvAnd, OBvOr, OBvXor:
		if lo == 0 || true {
			return f.bin(a.Op, f.Extract(a.Args[0], hi, lo), f.Extract(a.Args[1], hi, lo))
		}
	case OBvNot:
		return f.BvNot(f.Extract(a.Args[0], hi, lo))
	case OBvAdd, OBvSub, OBvMul:
		if lo == 0 {
			return f.bin(a.Op, f.Extract(a.Args[0], hi, 0), f.Extract(a.Args[1], hi, 0))
		}
	case OIte:
		if a.Args[1].IsConst() || a.Args[2].IsConst() {
			return f.Ite(a.Args[0], f.Extract(a.Args[1], hi, lo), f.Extract(a.Args[2], hi, lo))
		}
	}
	t := f.intern(&T{Op: OExtract, Sort: BV(nw), Args: []*T{a}, I: hi, J: lo})
	return t
}

func (f *Factory) ZExt(a *T, extra int) *T {
	if extra == 0 {
		return a
	}
	if extra < 0 {
		panic("negative zext")
	}
	if a.IsConst() {
		return f.BVConst(a.Val, a.Sort.W+extra)
	}
	if a.Op == OZExt {
		return f.ZExt(a.Args[0], a.I+extra)
	}
	return f.intern(&T{Op: OZExt, Sort: BV(a.Sort.W + extra), Args: []*T{a}, I: extra})
}

func (f *Factory) SExt(a *T, extra int) *T {
	if extra == 0 {
		return a
	}
	if a.IsConst() {
		return f.BVConst(toSigned(a.Val, a.Sort.W), a.Sort.W+extra)
	}
	if a.Op == OZExt {
		return f.ZExt(a.Args[0], a.I+extra)
	}
	return f.intern(&T{Op: OSExt, Sort: BV(a.Sort.W + extra), Args: []*T{a}, I: extra})
}

// Resize converts a BV to width w (truncate or extend by signedness).
func (f *Factory) Resize(a *T, w int, signed bool) *T {
	aw := a.Sort.W
	switch {
	case w == aw:
		return a
	case w < aw:
		return f.Extract(a, w-1, 0)
	case signed:
		return f.SExt(a, w-aw)
	}
	return f.ZExt(a, w-aw)
}

// ---------- Int ----------

func (f *Factory) ibin(op Op, a, b *T) *T {
	if a.Sort.K != KInt || b.Sort.K != KInt {
		panic("int op on non-int")
	}
	if a.IsConst() && b.IsConst() {
		r := new(big.Int)
		switch op {
		case OIAdd:
			return f.IntConst(r.Add(a.Val, b.Val))
		case OISub:
			return f.IntConst(r.Sub(a.Val, b.Val))
		case OIMul:
			return f.IntConst(r.Mul(a.Val, b.Val))
		case OIDiv:
			if b.Val.Sign() != 0 {
				// SMT-LIB div: floor for positive divisor, ceil for negative (Euclidean)
				m := new(big.Int)
				r.DivMod(a.Val, b.Val, m) // Euclidean division in Go's DivMod
				return f.IntConst(r)
			}
		case OIMod:
			if b.Val.Sign() != 0 {
				m := new(big.Int)
				r.DivMod(a.Val, b.Val, m)
				return f.IntConst(m)
			}
		}
	}
	z := func(t *T) bool { return t.IsConst() && t.Val.Sign() == 0 }
	o := func(t *T) bool { return t.IsConst() && t.Val.Cmp(one) == 0 }
	switch op {
	case OIAdd:
		if z(a) {
			return b
		}
		if z(b) {
			return a
		}
	case OISub:
		if z(b) {
			return a
		}
		if a == b {
			return f.IntConst64(0)
		}
	case OIMul:
		if z(a) || z(b) {
			return f.IntConst64(0)
		}
		if o(a) {
			return b
		}
		if o(b) {
			return a
		}
	case OIDiv:
		if o(b) {
			return a
		}
		// floor(floor(x/c1)/c2) = floor(x/(c1*c2)) for positive constants
		if b.IsConst() && b.Val.Sign() > 0 && a.Op == OIDiv && a.Args[1].IsConst() && a.Args[1].Val.Sign() > 0 {
			return f.ibin(OIDiv, a.Args[0], f.IntConst(new(big.Int).Mul(a.Args[1].Val, b.Val)))
		}
	}
	if op == OIMul && a.ID > b.ID {
		a, b = b, a
	}
	return f.mk(op, Int, a, b)
}

func (f *Factory) IAdd(a, b *T) *T { return f.ibin(OIAdd, a, b) }
func (f *Factory) ISub(a, b *T) *T { return f.ibin(OISub, a, b) }
func (f *Factory) IMul(a, b *T) *T { return f.ibin(OIMul, a, b) }
func (f *Factory) IDiv(a, b *T) *T { return f.ibin(OIDiv, a, b) }
func (f *Factory) IMod(a, b *T) *T { return f.ibin(OIMod, a, b) }
func (f *Factory) INeg(a *T) *T {
	if a.IsConst() {
		return f.IntConst(new(big.Int).Neg(a.Val))
	}
	return f.mk(OINeg, Int, a)
}
func (f *Factory) ILt(a, b *T) *T {
	if a.IsConst() && b.IsConst() {
		return f.BoolConst(a.Val.Cmp(b.Val) < 0)
	}
	if a == b {
		return f.False()
	}
	return f.mk(OILt, Bool, a, b)
}
func (f *Factory) ILe(a, b *T) *T {
	if a.IsConst() && b.IsConst() {
		return f.BoolConst(a.Val.Cmp(b.Val) <= 0)
	}
	if a == b {
		return f.True()
	}
	return f.mk(OILe, Bool, a, b)
}
func (f *Factory) IGt(a, b *T) *T { return f.ILt(b, a) }
func (f *Factory) IGe(a, b *T) *T { return f.ILe(b, a) }

func (f *Factory) Bv2Nat(a *T) *T {
	if a.IsConst() {
		return f.IntConst(a.Val)
	}
	if a.Op == OInt2Bv && false {
		return a.Args[0]
	}
	return f.mk(OBv2Nat, Int, a)
}
func (f *Factory) Int2Bv(a *T, w int) *T {
	if a.IsConst() {
		return f.BVConst(a.Val, w)
	}
	if a.Op == OBv2Nat && a.Args[0].Sort.W == w {
		return a.Args[0]
	}
	if a.Op == OBv2Nat && a.Args[0].Sort.W < w {
		return f.ZExt(a.Args[0], w-a.Args[0].Sort.W)
	}
	return f.intern(&T{Op: OInt2Bv, Sort: BV(w), Args: []*T{a}, I: w})
}

// ---------- printing ----------

func constStr(t *T) string {
	switch t.Sort.K {
	case KBool:
		if t.Val.Sign() != 0 {
			return "true"
		}
		return "false"
	case KInt:
		if t.Val.Sign() < 0 {
			return "(- " + new(big.Int).Neg(t.Val).String() + ")"
		}
		return t.Val.String()
	}
	w := t.Sort.W
	if w%4 == 0 {
		s := t.Val.Text(16)
		return "#x" + strings.Repeat("0", w/4-len(s)) + s
	}
	s := t.Val.Text(2)
	return "#b" + strings.Repeat("0", w-len(s)) + s
}

// Head returns the SMT-LIB expression of the node with children referred to by
// name via ref.
func (t *T) Head(ref func(*T) string) string {
	switch t.Op {
	case OConst:
		return constStr(t)
	case OVar:
		return t.Name
	case OUF:
		if len(t.Args) == 0 {
			return t.Name
		}
		var sb strings.Builder
		sb.WriteString("(" + t.Name)
		for _, a := range t.Args {
			sb.WriteString(" " + ref(a))
		}
		sb.WriteString(")")
		return sb.String()
	case OExtract:
		return fmt.Sprintf("((_ extract %d %d) %s)", t.I, t.J, ref(t.Args[0]))
	case OZExt:
		return fmt.Sprintf("((_ zero_extend %d) %s)", t.I, ref(t.Args[0]))
	case OSExt:
		return fmt.Sprintf("((_ sign_extend %d) %s)", t.I, ref(t.Args[0]))
	case OInt2Bv:
		return fmt.Sprintf("((_ int2bv %d) %s)", t.I, ref(t.Args[0]))
	}
	var sb strings.Builder
	sb.WriteString("(" + opName[t.Op])
	for _, a := range t.Args {
		sb.WriteString(" " + ref(a))
	}
	sb.WriteString(")")
	return sb.String()
}

// String prints the full term (exponential on DAGs; for debugging / small terms).
func (t *T) String() string {
	return t.Head(func(a *T) string { return a.String() })
}

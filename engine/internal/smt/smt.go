// Package smt drives an SMT solver process over pipes (SMT-LIB2).
package smt

import (
	"bufio"
	"fmt"
	"io"
	"math/big"
	"os"
	"os/exec"
	"strings"
	"time"

	"gosmt/internal/term"
)

type Result int

const (
	Unsat Result = iota
	Sat
	Unknown
)

func (r Result) String() string { return [...]string{"unsat", "sat", "unknown"}[r] }

type Stats struct {
	Queries   int
	Sat       int
	Unsat     int
	Unknown   int
	Errors    int
	SolveTime time.Duration
}

// Solver is one incremental solver session. The session holds a set of
// top-level assertions (the path condition) and node definitions.
type Solver struct {
	Name    string
	argv    []string
	cmd     *exec.Cmd
	in      io.WriteCloser
	out     *bufio.Reader
	defined map[int]bool
	declUF  map[string]bool
	Stats   Stats
	TimeoutMs int
	Log     io.Writer
	buf     strings.Builder
	dead    bool
	killed  bool
	// IntMode: every formula is translated to the integer encoding (term.ToInt) before it is sent.
	IntMode bool
}

func Argv(name string) []string {
	switch name {
	case "z3":
		return []string{"z3", "-in"}
	case "cvc5":
		return []string{"cvc5", "--incremental", "--lang=smt2", "--produce-models"}
	case "cvc5int":
		return []string{"cvc5", "--incremental", "--lang=smt2", "--produce-models", "--solve-bv-as-int=sum"}
	default:
		return []string{"z3-new", "-in"}
	}
}

func New(name string, timeoutMs int) (*Solver, error) {
	s := &Solver{Name: name, argv: Argv(name), TimeoutMs: timeoutMs}
	if err := s.start(); err != nil {
		return nil, err
	}
	return s, nil
}

func (s *Solver) start() error {
	s.cmd = exec.Command(s.argv[0], s.argv[1:]...)
	in, err := s.cmd.StdinPipe()
	if err != nil {
		return err
	}
	out, err := s.cmd.StdoutPipe()
	if err != nil {
		return err
	}
	if !strings.HasPrefix(s.Name, "cvc5") {
		s.cmd.Stderr = os.Stderr // cvc5 reports being interrupted by the portfolio race on stderr
	}
	if err := s.cmd.Start(); err != nil {
		return err
	}
	s.in = in
	s.out = bufio.NewReaderSize(out, 1<<16)
	s.defined = map[int]bool{}
	s.declUF = map[string]bool{}
	s.dead = false
	s.killed = false
	s.preamble()
	return nil
}

func (s *Solver) preamble() {
	s.send("(set-option :produce-models true)")
	if strings.HasPrefix(s.Name, "cvc5") {
		s.send("(set-logic ALL)")
		if s.TimeoutMs > 0 {
			s.send(fmt.Sprintf("(set-option :tlimit-per %d)", s.TimeoutMs))
		}
	} else if s.TimeoutMs > 0 {
		s.send(fmt.Sprintf("(set-option :timeout %d)", s.TimeoutMs))
	}
}

func (s *Solver) send(line string) {
	if s.Log != nil {
		fmt.Fprintln(s.Log, line)
	}
	s.buf.WriteString(line)
	s.buf.WriteByte('\n')
}

func (s *Solver) flush() {
	if s.buf.Len() == 0 {
		return
	}
	io.WriteString(s.in, s.buf.String())
	s.buf.Reset()
}

func (s *Solver) Dead() bool { return s.dead }

// SetTimeout changes the per-query time limit for subsequent checks.
func (s *Solver) SetTimeout(ms int) {
	if ms == s.TimeoutMs {
		return
	}
	s.TimeoutMs = ms
	if strings.HasPrefix(s.Name, "cvc5") {
		s.send(fmt.Sprintf("(set-option :tlimit-per %d)", ms))
	} else {
		s.send(fmt.Sprintf("(set-option :timeout %d)", ms))
	}
}

// CheckFresh resets the session, asserts pc and checks extra.
func (s *Solver) CheckFresh(f *term.Factory, pc []*term.T, extra *term.T, want []*term.T) (Result, []*big.Int) {
	s.Reset()
	for _, c := range pc {
		s.Assert(f, c)
	}
	return s.Check(f, extra, want)
}

// PrepareFresh is CheckFresh split like Prepare.
func (s *Solver) PrepareFresh(f *term.Factory, pc []*term.T, extra *term.T, want []*term.T) func() (Result, []*big.Int) {
	s.Reset()
	for _, c := range pc {
		s.Assert(f, c)
	}
	return s.Prepare(f, extra, want)
}

func (s *Solver) Close() {
	if s.cmd != nil {
		s.in.Close()
		s.cmd.Process.Kill()
		s.cmd.Wait()
		s.cmd = nil
	}
}

// Reset clears all assertions and definitions.
func (s *Solver) Reset() {
	if s.dead {
		s.Close()
		s.start()
		return
	}
	s.buf.Reset()
	s.send("(reset)")
	s.defined = map[int]bool{}
	s.declUF = map[string]bool{}
	s.preamble()
}

func name(t *term.T) string { return fmt.Sprintf("t%d", t.ID) }

// define emits definitions for all nodes reachable from t not yet defined.
func (s *Solver) define(f *term.Factory, t *term.T) string {
	if s.IntMode {
		t = f.ToInt(t)
	}
	if t.Op == term.OConst {
		return t.Head(nil)
	}
	if s.defined[t.ID] {
		return s.ref(t)
	}
	// iterative post-order
	type fr struct {
		t *term.T
		i int
	}
	stack := []fr{{t, 0}}
	for len(stack) > 0 {
		top := &stack[len(stack)-1]
		if top.i < len(top.t.Args) {
			a := top.t.Args[top.i]
			top.i++
			if a.Op != term.OConst && !s.defined[a.ID] {
				stack = append(stack, fr{a, 0})
			}
			continue
		}
		n := top.t
		stack = stack[:len(stack)-1]
		if s.defined[n.ID] {
			continue
		}
		s.defined[n.ID] = true
		switch n.Op {
		case term.OVar:
			s.send(fmt.Sprintf("(declare-const %s %s)", n.Name, n.Sort))
			if term.IsShadow(n) {
				s.send(fmt.Sprintf("(assert (and (<= 0 %s) (< %s %s)))", n.Name, n.Name, new(big.Int).Lsh(big.NewInt(1), uint(term.ShadowWidth(n))).String()))
			}
		case term.OUF:
			if !s.declUF[n.Name] {
				s.declUF[n.Name] = true
				var as []string
				for _, a := range n.Args {
					as = append(as, a.Sort.String())
				}
				s.send(fmt.Sprintf("(declare-fun %s (%s) %s)", n.Name, strings.Join(as, " "), n.Sort))
			}
			s.send(fmt.Sprintf("(define-fun %s () %s %s)", name(n), n.Sort, n.Head(s.ref)))
		default:
			s.send(fmt.Sprintf("(define-fun %s () %s %s)", name(n), n.Sort, n.Head(s.ref)))
		}
	}
	return s.ref(t)
}

func (s *Solver) ref(t *term.T) string {
	switch t.Op {
	case term.OConst:
		return t.Head(nil)
	case term.OVar:
		return t.Name
	}
	return name(t)
}

// Assert adds t to the session's top-level assertions.
func (s *Solver) Assert(f *term.Factory, t *term.T) {
	r := s.define(f, t)
	s.send("(assert " + r + ")")
}

// Declare makes sure the variable is known to the solver (so it gets a model value).
func (s *Solver) Declare(f *term.Factory, t *term.T) { s.define(f, t) }

func (s *Solver) readLine() (string, error) {
	line, err := s.out.ReadString('\n')
	return strings.TrimSpace(line), err
}

// Check checks satisfiability of the session assertions plus extra (may be nil).
// If want is non-nil and the result is sat, values of those terms are returned.
func (s *Solver) Check(f *term.Factory, extra *term.T, want []*term.T) (Result, []*big.Int) {
	return s.Prepare(f, extra, want)()
}

// Interrupt kills the solver process; a pending wait returns Unknown. Safe to
// call from another goroutine. The session must be Reset (restarted) afterwards.
func (s *Solver) Interrupt() {
	s.killed = true
	if c := s.cmd; c != nil && c.Process != nil {
		c.Process.Kill()
	}
}

// Prepare serialises the query (all factory access happens here) and returns
// the function that sends it and waits for the answer; the returned function
// touches only the solver session, so it may run on another goroutine.
func (s *Solver) Prepare(f *term.Factory, extra *term.T, want []*term.T) func() (Result, []*big.Int) {
	var r string
	if extra != nil {
		r = s.define(f, extra)
	}
	var wantRefs []string
	for _, w := range want {
		wantRefs = append(wantRefs, s.define(f, w))
	}
	s.send("(push 1)")
	if extra != nil {
		s.send("(assert " + r + ")")
	}
	s.send("(check-sat)")
	return func() (Result, []*big.Int) { return s.wait(want, wantRefs) }
}

func (s *Solver) wait(want []*term.T, wantRefs []string) (Result, []*big.Int) {
	s.flush()
	t0 := time.Now()
	s.Stats.Queries++
	res := Unknown
	var line string
	var err error
	for {
		line, err = s.readLine()
		if err != nil {
			s.dead = true
			if !s.killed {
				s.Stats.Errors++
			}
			s.Stats.Unknown++
			s.Stats.SolveTime += time.Since(t0)
			return Unknown, nil
		}
		if line == "" {
			continue
		}
		break
	}
	s.Stats.SolveTime += time.Since(t0)
	switch {
	case line == "sat":
		res = Sat
		s.Stats.Sat++
	case line == "unsat":
		res = Unsat
		s.Stats.Unsat++
	case line == "unknown":
		s.Stats.Unknown++
	default:
		// error or anything else: inconclusive
		s.Stats.Errors++
		s.Stats.Unknown++
		fmt.Fprintf(os.Stderr, "solver %s: unexpected output: %s\n", s.Name, line)
		// errors may be multi-line; restart the process to resynchronise
		s.dead = true
		return Unknown, nil
	}
	var vals []*big.Int
	if res == Sat && len(want) > 0 {
		vals = make([]*big.Int, len(want))
		// chunk to keep lines reasonable
		const chunk = 200
		for i := 0; i < len(want); i += chunk {
			j := i + chunk
			if j > len(want) {
				j = len(want)
			}
			s.send("(get-value (" + strings.Join(wantRefs[i:j], " ") + "))")
			s.flush()
			txt, err := s.readSexp()
			if err != nil {
				s.dead = true
				s.Stats.Errors++
				return Unknown, nil
			}
			vs, err := parseValues(txt, j-i)
			if err != nil {
				fmt.Fprintf(os.Stderr, "solver %s: cannot parse model: %v: %s\n", s.Name, err, txt)
				s.dead = true
				s.Stats.Errors++
				return Unknown, nil
			}
			copy(vals[i:j], vs)
		}
	}
	s.send("(pop 1)")
	return res, vals
}

// readSexp reads one balanced s-expression from the solver.
func (s *Solver) readSexp() (string, error) {
	var sb strings.Builder
	depth := 0
	started := false
	for {
		b, err := s.out.ReadByte()
		if err != nil {
			return sb.String(), err
		}
		sb.WriteByte(b)
		if b == '(' {
			depth++
			started = true
		} else if b == ')' {
			depth--
		}
		if started && depth == 0 {
			return sb.String(), nil
		}
	}
}

// parseValues parses ((name value) ...) in order.
func parseValues(txt string, n int) ([]*big.Int, error) {
	toks := tokenize(txt)
	pos := 0
	next := func() string {
		if pos < len(toks) {
			pos++
			return toks[pos-1]
		}
		return ""
	}
	if next() != "(" {
		return nil, fmt.Errorf("expected (")
	}
	var out []*big.Int
	for i := 0; i < n; i++ {
		if next() != "(" {
			return nil, fmt.Errorf("expected ( for pair %d", i)
		}
		// name: may be an s-expression? we always pass symbols or constants
		nm := next()
		if nm == "(" { // constant like (- 5) or ((_ extract..)) -- skip balanced
			d := 1
			for d > 0 {
				t := next()
				if t == "(" {
					d++
				} else if t == ")" {
					d--
				} else if t == "" {
					return nil, fmt.Errorf("eof")
				}
			}
		}
		v, err := parseVal(&pos, toks)
		if err != nil {
			return nil, err
		}
		out = append(out, v)
		if next() != ")" {
			return nil, fmt.Errorf("expected ) after pair %d", i)
		}
	}
	return out, nil
}

func parseVal(pos *int, toks []string) (*big.Int, error) {
	t := toks[*pos]
	*pos++
	switch {
	case t == "true":
		return big.NewInt(1), nil
	case t == "false":
		return big.NewInt(0), nil
	case strings.HasPrefix(t, "#x"):
		v, ok := new(big.Int).SetString(t[2:], 16)
		if !ok {
			return nil, fmt.Errorf("bad hex %s", t)
		}
		return v, nil
	case strings.HasPrefix(t, "#b"):
		v, ok := new(big.Int).SetString(t[2:], 2)
		if !ok {
			return nil, fmt.Errorf("bad bin %s", t)
		}
		return v, nil
	case t == "(":
		// (- n) or (_ bvN w)
		h := toks[*pos]
		*pos++
		switch h {
		case "-":
			v, err := parseVal(pos, toks)
			if err != nil {
				return nil, err
			}
			if toks[*pos] != ")" {
				return nil, fmt.Errorf("expected )")
			}
			*pos++
			return v.Neg(v), nil
		case "_":
			bv := toks[*pos]
			*pos += 2
			if toks[*pos] != ")" {
				return nil, fmt.Errorf("expected )")
			}
			*pos++
			v, ok := new(big.Int).SetString(strings.TrimPrefix(bv, "bv"), 10)
			if !ok {
				return nil, fmt.Errorf("bad bv %s", bv)
			}
			return v, nil
		}
		return nil, fmt.Errorf("unsupported value form (%s", h)
	default:
		v, ok := new(big.Int).SetString(t, 10)
		if !ok {
			return nil, fmt.Errorf("bad value %s", t)
		}
		return v, nil
	}
}

func tokenize(s string) []string {
	var toks []string
	i := 0
	for i < len(s) {
		c := s[i]
		switch {
		case c == '(' || c == ')':
			toks = append(toks, string(c))
			i++
		case c == ' ' || c == '\n' || c == '\t' || c == '\r':
			i++
		default:
			j := i
			for j < len(s) && !strings.ContainsRune("() \n\t\r", rune(s[j])) {
				j++
			}
			toks = append(toks, s[i:j])
			i = j
		}
	}
	return toks
}

package exec

import (
	"fmt"
	"go/token"
	"go/types"
	"math/big"
	"math/rand"
	"os"
	"runtime/debug"
	"sort"
	"strings"
	"sync"
	"time"

	"gosmt/internal/smt"
	"gosmt/internal/term"

	"golang.org/x/tools/go/ssa"
)

type HarnessSpec struct {
	Name      string         `json:"name"`
	Pkg       string         `json:"pkg"`  // import path
	Func      string         `json:"func"` // harness function name
	MaxDepth  int            `json:"max_depth"`
	MaxSteps  int            `json:"max_steps"`
	MaxAlloc  int            `json:"max_alloc"`
	MaxPaths  int            `json:"max_paths"`
	TimeoutS  int            `json:"timeout_s"`
	Validate  int            `json:"validate"` // number of completed paths to validate natively
	Bounds    map[string]int `json:"bounds"`
	Reach     []string       `json:"reach"`
	SolverMs  int            `json:"solver_ms"`
	FastMs    int            `json:"fast_ms"`
	AltMs     int            `json:"alt_ms"`
	NoAlt     bool           `json:"no_alt"`
	// IntMode: send every query in the integer encoding (bit-vectors as bounded mathematical integers with explicit wrap-around)
	IntMode   bool           `json:"int_mode"`
	MapPerms  bool           `json:"map_perms"`
	SkipInit  []string       `json:"skip_init"`
	Note      string         `json:"note"`
	// UF lists functions (by go/ssa full name) replaced by uninterpreted functions of their scalar/big.Int arguments.
	UF        []string       `json:"uf"`
	// Summaries: calls of a function (go/ssa full name) are redirected to a fork-free
	// reference function "import/path.Name" with the same signature, which another
	// harness of the same property proves equal to the real function (assume-guarantee).
	Summaries map[string]string `json:"summaries"`
	// KFInjective: assume that Keccak-f applications agreeing on their first 256 output bits have equal inputs.
	KFInjective bool `json:"kf_injective"`
	ufSet     map[string]bool
	mapPerm   func(p *Path, es []*MapEntry) []*MapEntry
}

func (h *HarnessSpec) Defaults() {
	if len(h.UF) > 0 {
		h.ufSet = map[string]bool{}
		for _, n := range h.UF {
			h.ufSet[n] = true
		}
	}
	if h.MaxDepth == 0 {
		h.MaxDepth = 400
	}
	if h.MaxSteps == 0 {
		h.MaxSteps = 5_000_000
	}
	if h.MaxAlloc == 0 {
		h.MaxAlloc = 4096
	}
	if h.MaxPaths == 0 {
		h.MaxPaths = 200_000
	}
	if h.TimeoutS == 0 {
		h.TimeoutS = 900
	}
	if h.SolverMs == 0 {
		h.SolverMs = 60_000
	}
	if h.FastMs == 0 {
		h.FastMs = 3_000
	}
	if h.AltMs == 0 {
		h.AltMs = 30_000
	}
	if h.Validate == 0 {
		h.Validate = 24
	}
}

type Intrinsic func(p *Path, caller *frame, fn *ssa.Function, args []Value, site ssa.CallInstruction) Value

type Engine struct {
	Prog     *ssa.Program
	Fset     *token.FileSet
	mu       sync.Mutex
	intr     map[string]Intrinsic
	intrC    sync.Map // *ssa.Function -> Intrinsic (or nil marker)
	skipPkgs map[string]bool
	Solver   string
	Verbose  bool
}

func NewEngine(prog *ssa.Program, fset *token.FileSet) *Engine {
	e := &Engine{Prog: prog, Fset: fset, intr: map[string]Intrinsic{}, skipPkgs: map[string]bool{}}
	registerIntrinsics(e)
	registerBigIntrinsics(e)
	registerU256Intrinsics(e)
	registerMoreHarnessAPI(e)
	return e
}

func (e *Engine) buildPkg(pkg *ssa.Package) {
	e.mu.Lock()
	defer e.mu.Unlock()
	pkg.Build()
}

func (e *Engine) buildFn(fn *ssa.Function) {
	e.mu.Lock()
	defer e.mu.Unlock()
	if fn.Pkg != nil {
		fn.Pkg.Build()
	} else if o := fn.Origin(); o != nil && o.Pkg != nil {
		o.Pkg.Build()
	}
}

// packages whose initialisers are never run (their globals read as zero / opaque).
var noInitPkgs = map[string]bool{
	"runtime": true, "reflect": true, "os": true, "syscall": true, "time": true, "fmt": true,
	"unicode": true, "sync": true, "internal/poll": true, "net": true, "log": true, "log/slog": true,
	"internal/godebug": true, "internal/cpu": true, "testing": true, "flag": true, "io/fs": true,
	"crypto/rand": true, "math/rand": true, "math/rand/v2": true, "encoding/json": true,
	"internal/reflectlite": true, "context": true, "unique": true, "internal/abi": true,
}

func (e *Engine) skipInit(pkg *ssa.Package) bool {
	path := pkg.Pkg.Path()
	return noInitPkgs[path] || e.skipPkgs[path]
}

type nilIntr struct{}

func (e *Engine) intrinsic(fn *ssa.Function) Intrinsic {
	if v, ok := e.intrC.Load(fn); ok {
		if h, ok := v.(Intrinsic); ok {
			return h
		}
		return nil
	}
	var h Intrinsic
	name := fn.String()
	if o := fn.Origin(); o != nil {
		name = o.String()
	}
	if x, ok := e.intr[name]; ok {
		h = x
	} else if strings.HasPrefix(fn.Name(), "zz") && fn.Blocks == nil && fn.Synthetic == "" {
		if x, ok := e.intr["zz:"+fn.Name()]; ok {
			h = x
		}
	}
	if h == nil {
		e.intrC.Store(fn, nilIntr{})
	} else {
		e.intrC.Store(fn, h)
	}
	return h
}

func (e *Engine) lookupMethod(t types.Type, m *types.Func) *ssa.Function {
	return e.Prog.LookupMethod(t, m.Pkg(), m.Name())
}

// ---------- results ----------

type PathResult struct {
	Kind      string
	Msg       string
	Violation *Violation
	Steps     int
	Forks     int
}

type ValidationCase struct {
	Harness string        `json:"harness"`
	Inputs  []ReplayInput `json:"inputs"`
	Expect  string        `json:"expect"` // pass | assert:<label> | panic
	Obs     []string      `json:"obs,omitempty"`
	Reach   []string      `json:"reach,omitempty"`
	Bounds  map[string]int `json:"bounds,omitempty"`
}

type HarnessResult struct {
	Spec        *HarnessSpec
	Paths       map[string]int
	Msgs        map[string]int // messages of non-done ends
	Steps       int64
	Violations  []*Violation
	Reached     map[string]bool
	Funcs       map[string]string
	Stubs       map[string]bool
	Validation  []ValidationCase
	Solver      smt.Stats
	Wall        time.Duration
	Incomplete  []string
	MaxForks    int
	TermNodes   int
	AltQueries  int
	AltDecided  int
}

type worker struct {
	e *Engine
	h *HarnessSpec
	F *term.Factory
	S *smt.Solver
	A *smt.Solver // alternate back end (cvc5, bit-vectors solved as integers), started lazily
	altTried bool
	altWins  int
	tp       *Path // template path holding initialised package state
}

func (w *worker) newPath(trace []Decision) *Path {
	return &Path{E: w.e, H: w.h, F: w.F, S: w.S, W: w, trace: trace,
		globals: map[*ssa.Global]*Obj{}, initDone: map[*ssa.Package]bool{}, initAborted: map[*ssa.Package]string{}, reach: map[string]bool{},
		pools: map[*Obj][]Value{}, funcs: map[*ssa.Function]bool{}, stubs: map[string]bool{},
		ufApps: map[string][]*term.T{}, decided: map[*term.T]bool{}, extra: map[string]interface{}{},
		cloneMemo: map[*Obj]*Obj{}, cloneMapMemo: map[*MapObj]*MapObj{}}
}

// template returns the worker's template path, on which package initialisers
// are interpreted once; its objects are never handed to exploring paths.
func (w *worker) template() *Path {
	if w.tp == nil {
		w.tp = w.newPath(nil)
		w.tp.isTemplate = true
	}
	return w.tp
}

func (w *worker) alt() *smt.Solver {
	if w.A == nil && !w.altTried {
		w.altTried = true
		if w.h.NoAlt {
			return nil
		}
		a, err := smt.New("cvc5int", w.h.AltMs)
		if err == nil {
			w.A = a
		}
	}
	return w.A
}

type sched struct {
	mu      sync.Mutex
	cond    *sync.Cond
	stack   [][]Decision
	active  int
	stopped bool
	nPaths  int
}

// RunHarness explores all paths of the harness function.
func (e *Engine) RunHarness(h *HarnessSpec, fn *ssa.Function, workers int) *HarnessResult {
	h.Defaults()
	if h.MapPerms {
		h.mapPerm = permuteEntries
	}
	res := &HarnessResult{Spec: h, Paths: map[string]int{}, Msgs: map[string]int{}, Reached: map[string]bool{},
		Funcs: map[string]string{}, Stubs: map[string]bool{}}
	t0 := time.Now()
	deadline := t0.Add(time.Duration(h.TimeoutS) * time.Second)
	sc := &sched{}
	sc.cond = sync.NewCond(&sc.mu)
	sc.stack = [][]Decision{nil}
	var rmu sync.Mutex
	var wg sync.WaitGroup
	for i := 0; i < workers; i++ {
		wg.Add(1)
		go func(wi int) {
			defer wg.Done()
			s, err := smt.New(e.Solver, h.SolverMs)
			if err != nil {
				fmt.Fprintln(os.Stderr, "cannot start solver:", err)
				return
			}
			defer s.Close()
			s.IntMode = h.IntMode
			if d := os.Getenv("GOSMT_SMTLOG"); d != "" {
				if lf, err := os.Create(fmt.Sprintf("%s/%s-w%d.smt2", d, h.Name, wi)); err == nil {
					defer lf.Close()
					s.Log = lf
				}
			}
			w := &worker{e: e, h: h, S: s, F: term.NewFactory()}
			npaths := 0
			for {
				sc.mu.Lock()
				for len(sc.stack) == 0 && sc.active > 0 && !sc.stopped {
					sc.cond.Wait()
				}
				if sc.stopped || len(sc.stack) == 0 {
					sc.mu.Unlock()
					sc.cond.Broadcast()
					break
				}
				tr := sc.stack[len(sc.stack)-1]
				sc.stack = sc.stack[:len(sc.stack)-1]
				sc.active++
				sc.nPaths++
				np := sc.nPaths
				sc.mu.Unlock()

				if np > h.MaxPaths || time.Now().After(deadline) {
					sc.mu.Lock()
					sc.stopped = true
					sc.active--
					sc.mu.Unlock()
					sc.cond.Broadcast()
					rmu.Lock()
					if np > h.MaxPaths {
						res.Incomplete = append(res.Incomplete, fmt.Sprintf("path budget %d exhausted", h.MaxPaths))
					} else {
						res.Incomplete = append(res.Incomplete, fmt.Sprintf("time budget %ds exhausted", h.TimeoutS))
					}
					rmu.Unlock()
					break
				}
				// keep the term table bounded
				npaths++
				if w.F.Size() > 3_000_000 {
					w.F = term.NewFactory()
					w.tp = nil // template terms belong to the old factory
				}
				p, pr := w.runPath(fn, tr, res, &rmu)
				sc.mu.Lock()
				sc.stack = append(sc.stack, p.pending...)
				sc.active--
				sc.mu.Unlock()
				sc.cond.Broadcast()

				rmu.Lock()
				res.Paths[pr.Kind]++
				res.Steps += int64(pr.Steps)
				if pr.Forks > res.MaxForks {
					res.MaxForks = pr.Forks
				}
				if pr.Kind != "done" && pr.Kind != "infeasible" && pr.Kind != "violation" {
					res.Msgs[pr.Kind+": "+pr.Msg]++
				}
				if pr.Violation != nil {
					res.Violations = append(res.Violations, pr.Violation)
				}
				for f := range p.funcs {
					if _, ok := res.Funcs[f.String()]; !ok {
						res.Funcs[f.String()] = posStr(e.Fset, f.Pos())
					}
				}
				for s := range p.stubs {
					res.Stubs[s] = true
				}
				if e.Verbose {
					fmt.Fprintf(os.Stderr, "[w%d] path %d: %s %s (forks=%d steps=%d)\n", wi, np, pr.Kind, pr.Msg, pr.Forks, pr.Steps)
				}
				rmu.Unlock()
			}
			rmu.Lock()
			if w.A != nil {
				as := w.A.Stats
				res.AltQueries += as.Queries
				res.AltDecided += w.altWins
				res.Solver.SolveTime += as.SolveTime
				w.A.Close()
			}
			st := w.S.Stats
			res.Solver.Queries += st.Queries
			res.Solver.Sat += st.Sat
			res.Solver.Unsat += st.Unsat
			res.Solver.Unknown += st.Unknown
			res.Solver.Errors += st.Errors
			res.Solver.SolveTime += st.SolveTime
			res.TermNodes += w.F.Size()
			rmu.Unlock()
		}(i)
	}
	wg.Wait()
	res.Wall = time.Since(t0)
	for k, n := range res.Paths {
		if n > 0 && (k == "unsupported" || k == "budget" || k == "unknown" || k == "internal") {
			res.Incomplete = append(res.Incomplete, fmt.Sprintf("%d path(s) ended as %s", n, k))
		}
	}
	for _, l := range h.Reach {
		if !res.Reached[l] {
			res.Incomplete = append(res.Incomplete, "vacuity: label not reached: "+l)
		}
	}
	sort.Strings(res.Incomplete)
	return res
}

func (w *worker) runPath(fn *ssa.Function, trace []Decision, res *HarnessResult, rmu *sync.Mutex) (p *Path, pr PathResult) {
	w.S.Reset()
	p = w.newPath(trace)
	p.extra["res"] = res
	p.extra["rmu"] = rmu
	defer func() {
		pr.Steps = p.steps
		pr.Forks = len(p.newTrace)
		r := recover()
		if r == nil {
			return
		}
		switch x := r.(type) {
		case *pathEnd:
			pr.Kind, pr.Msg = x.kind, x.msg
			if x.kind == "violation" {
				pr.Violation, _ = p.extra["violation"].(*Violation)
			}
		case *goPanic:
			// uncaught panic of the interpreted program
			v := p.mkViolation("panic", x.msg, x.pos)
			if v == nil {
				if k, _ := p.extra["vkind"].(string); k != "" {
					pr.Kind, pr.Msg = k, "while building the counterexample for: "+x.msg
				} else {
					pr.Kind, pr.Msg = "infeasible", "panic path infeasible"
				}
				return
			}
			pr.Kind, pr.Msg, pr.Violation = "violation", x.msg, v
		default:
			pr.Kind = "internal"
			pr.Msg = fmt.Sprintf("engine panic: %v", r)
			if w.e.Verbose {
				fmt.Fprintf(os.Stderr, "%s\n%s\n", pr.Msg, debug.Stack())
			} else {
				st := string(debug.Stack())
				lines := strings.Split(st, "\n")
				if len(lines) > 24 {
					lines = lines[:24]
				}
				pr.Msg += " @ " + strings.Join(lines[6:], " | ")
			}
		}
	}()
	p.callFunction(fn, nil, nil, nil)
	pr.Kind = "done"
	p.finishDone(res, rmu)
	return
}

// inputsFromModel evaluates the nondet log (and observation terms) under a model of the PC.
func (p *Path) inputsFromModel() ([]ReplayInput, []string, string) {
	return p.inputsFromModelWith(nil)
}

// inputsFromModelWith asks for a model of the path condition plus extra.
func (p *Path) inputsFromModelWith(extra *term.T) ([]ReplayInput, []string, string) {
	var want []*term.T
	for _, n := range p.nondets {
		want = append(want, n.Terms...)
	}
	nIn := len(want)
	for _, o := range p.obs {
		want = append(want, o.Terms...)
	}
	for _, t := range want {
		p.S.Declare(p.F, t)
	}
	r, vals := p.check(extra, want)
	if r == smt.Unsat {
		return nil, nil, "infeasible"
	}
	if r != smt.Sat {
		return nil, nil, "unknown"
	}
	if len(want) == 0 {
		vals = nil
	}
	var ins []ReplayInput
	k := 0
	for _, n := range p.nondets {
		vs := vals[k : k+len(n.Terms)]
		k += len(n.Terms)
		switch n.Kind {
		case "bool":
			ins = append(ins, ReplayInput{Kind: n.Kind, Val: fmt.Sprint(vs[0].Sign() != 0)})
		case "bytes":
			ln := int(vs[0].Int64())
			bs := make([]byte, n.Max)
			for i := 0; i < n.Max; i++ {
				bs[i] = byte(vs[1+i].Uint64())
			}
			ins = append(ins, ReplayInput{Kind: n.Kind, Val: fmt.Sprint(ln), Bytes: fmt.Sprintf("%x", bs)})
		case "u256":
			var ws []string
			for _, v := range vs {
				ws = append(ws, v.String())
			}
			ins = append(ins, ReplayInput{Kind: n.Kind, Words: ws})
		case "i64", "int":
			ins = append(ins, ReplayInput{Kind: n.Kind, Val: signed64(vs[0]).String()})
		default:
			ins = append(ins, ReplayInput{Kind: n.Kind, Val: vs[0].String()})
		}
	}
	_ = nIn
	// On a path whose condition depends on an uninterpreted function the native
	// run may take another path: the observations are not comparable then.
	pcUF := false
	for _, c := range p.pc {
		if c.UFDep {
			pcUF = true
		}
	}
	var obs []string
	for _, o := range p.obs {
		vs := vals[k : k+len(o.Terms)]
		k += len(o.Terms)
		if pcUF {
			obs = append(obs, o.Label+"=?")
		} else {
			obs = append(obs, o.Label+"="+fmtObs(o, vs))
		}
	}
	return ins, obs, ""
}

func signed64(v *big.Int) *big.Int {
	if v.Bit(63) == 1 {
		return new(big.Int).Sub(v, new(big.Int).Lsh(big.NewInt(1), 64))
	}
	return v
}

func fmtObs(o obsRec, vs []*big.Int) string {
	for _, t := range o.Terms {
		if t.UFDep {
			return "?"
		}
	}
	switch o.Kind {
	case "bool":
		return fmt.Sprint(vs[0].Sign() != 0)
	case "bytes":
		bs := make([]byte, len(vs))
		for i, v := range vs {
			bs[i] = byte(v.Uint64())
		}
		return fmt.Sprintf("%x", bs)
	case "i64":
		return signed64(vs[0]).String()
	case "const":
		return o.Label
	}
	return vs[0].String()
}

func (p *Path) mkViolation(kind, label, pos string) *Violation {
	ins, _, bad := p.inputsFromModel()
	if bad != "" {
		if bad == "unknown" {
			p.extra["vkind"] = "unknown"
		}
		return nil
	}
	v := &Violation{Harness: p.H.Name, Kind: kind, Label: label, Pos: pos, Inputs: ins, Trace: append([]Decision{}, p.newTrace...)}
	// If the path depends on an uninterpreted function, the solver's model may
	// rely on function values the real function does not have. Offer further
	// models of the same path (differing in randomly pinned input bytes) so that
	// the native replay can find one that holds for the real function.
	ufDep := false
	for _, c := range p.pc {
		if c.UFDep {
			ufDep = true
		}
	}
	if ufDep {
		var cands []*term.T
		for _, n := range p.nondets {
			for _, t := range n.Terms {
				if t.Op == term.OVar && t.Sort.K == term.KBV {
					cands = append(cands, t)
				}
			}
		}
		rng := rand.New(rand.NewSource(int64(len(p.newTrace))*7919 + int64(len(cands))))
		for try := 0; try < 12 && len(cands) > 0 && len(v.Alt) < 8; try++ {
			pin := p.F.True()
			for k := 0; k < 2; k++ {
				t := cands[rng.Intn(len(cands))]
				val := new(big.Int).SetUint64(rng.Uint64())
				pin = p.F.And(pin, p.F.Eq(t, p.F.BVConst(val, t.Sort.W)))
			}
			if alt, _, bad := p.inputsFromModelWith(pin); bad == "" {
				v.Alt = append(v.Alt, alt)
			}
		}
	}
	return v
}

func (p *Path) finishDone(res *HarnessResult, rmu *sync.Mutex) {
	rmu.Lock()
	need := len(res.Validation) < p.H.Validate
	rmu.Unlock()
	if !need {
		return
	}
	ins, obs, bad := p.inputsFromModel()
	if bad != "" {
		return
	}
	var reach []string
	for l := range p.reach {
		reach = append(reach, l)
	}
	sort.Strings(reach)
	rmu.Lock()
	if len(res.Validation) < p.H.Validate {
		res.Validation = append(res.Validation, ValidationCase{Harness: p.H.Func, Inputs: ins, Expect: "pass", Obs: obs, Reach: reach, Bounds: p.H.Bounds})
	}
	rmu.Unlock()
}

func permuteEntries(p *Path, es []*MapEntry) []*MapEntry {
	// choose a permutation by forking on fresh choices (all orders explored)
	n := len(es)
	if n <= 1 {
		return es
	}
	if n > 4 {
		p.end("budget", "map range over %d entries with map_perms", n)
	}
	rest := append([]*MapEntry{}, es...)
	var out []*MapEntry
	for len(rest) > 1 {
		c := p.choice(len(rest))
		out = append(out, rest[c])
		rest = append(rest[:c:c], rest[c+1:]...)
	}
	return append(out, rest...)
}

// choice returns a value in [0,n) chosen by forking; it is not recorded as an input.
func (p *Path) choice(n int) int {
	p.nchoice++
	v := p.F.Var(fmt.Sprintf("c%d_order", p.nchoice), term.BV(8))
	p.assume(p.F.BvUlt(v, p.F.BVConst64(uint64(n), 8)))
	return int(p.concretize(v, "order choice"))
}

package exec

import (
	"strings"
	"fmt"
	"go/constant"
	"go/token"
	"go/types"
	"math/big"
	"runtime"

	"gosmt/internal/term"

	"golang.org/x/tools/go/ssa"
)

func (fr *frame) get(v ssa.Value) Value {
	p := fr.p
	switch x := v.(type) {
	case *ssa.Const:
		return p.constVal(x)
	case *ssa.Global:
		return &Ptr{Obj: p.global(x)}
	case *ssa.Function:
		return &FuncV{Fn: x}
	case *ssa.Builtin:
		return &FuncV{Builtin: x}
	}
	r, ok := fr.env[v]
	if !ok {
		p.end("unsupported", "internal: no value for %s (%T) in %s", v.Name(), v, fr.fn)
	}
	return r
}

func (p *Path) constVal(c *ssa.Const) Value {
	t := c.Type()
	if c.Value == nil {
		if _, ok := t.Underlying().(*types.Basic); ok && t.Underlying().(*types.Basic).Kind() == types.UntypedNil {
			return &Ptr{}
		}
		return p.zero(t)
	}
	if _, isTP := t.(*types.TypeParam); isTP {
		p.unsupported("constant of type parameter type")
	}
	switch u := t.Underlying().(type) {
	case *types.Basic:
		switch {
		case u.Info()&types.IsBoolean != 0:
			return p.F.BoolConst(constant.BoolVal(c.Value))
		case u.Info()&types.IsString != 0:
			return StrV(constant.StringVal(c.Value))
		case u.Info()&types.IsInteger != 0:
			w, _, _ := intInfo(t)
			v := constant.ToInt(c.Value)
			bi, ok := new(big.Int).SetString(v.ExactString(), 10)
			if !ok {
				p.unsupported("bad integer constant %s", v)
			}
			return p.F.BVConst(bi, w)
		case u.Info()&(types.IsFloat|types.IsComplex) != 0:
			return &OpaqueV{Name: "float:" + c.Value.ExactString(), T: t}
		}
	}
	p.unsupported("constant %s of type %v", c.Value, t)
	return nil
}

const maxCallDepth = 400

// callFunction interprets fn.
func (p *Path) callFunction(fn *ssa.Function, args []Value, bind []Value, caller *frame) (ret Value) {
	if fn.Blocks == nil {
		p.E.buildFn(fn)
		if fn.Blocks == nil {
			p.unsupported("function without body: %s", fn)
		}
	}
	if p.inInit == 0 {
		p.funcs[fn] = true
	}
	p.depth++
	if p.depth > maxCallDepth {
		p.end("budget", "call depth exceeds %d", maxCallDepth)
	}
	defer func() { p.depth-- }()
	fr := &frame{p: p, fn: fn, caller: caller, env: make(map[ssa.Value]Value, 16)}
	if len(args) != len(fn.Params) {
		p.end("unsupported", "internal: %s called with %d args, wants %d", fn, len(args), len(fn.Params))
	}
	for i, prm := range fn.Params {
		fr.env[prm] = args[i]
	}
	for i, fv := range fn.FreeVars {
		fr.env[fv] = bind[i]
	}
	fr.block = fn.Blocks[0]
	for fr.block != nil {
		fr.runBlocks()
	}
	return fr.result
}

// runBlocks executes until return; interpreted panics run deferred calls.
func (fr *frame) runBlocks() {
	p := fr.p
	defer func() {
		if fr.block == nil {
			return // normal return
		}
		r := recover()
		gp, ok := r.(*goPanic)
		if !ok {
			panic(r) // pathEnd or engine bug: propagate
		}
		fr.panicking = true
		fr.panicVal = gp
		fr.runDefers()
		if fr.panicking {
			fr.block = nil
			panic(gp)
		}
		// recovered
		if fr.fn.Recover != nil {
			fr.block = fr.fn.Recover
			fr.prev = nil
		} else {
			fr.block = nil
			// results are zero values
			res := fr.fn.Signature.Results()
			switch res.Len() {
			case 0:
				fr.result = nil
			case 1:
				fr.result = p.zero(res.At(0).Type())
			default:
				fr.result = p.zero(res)
			}
		}
	}()
	for {
		b := fr.block
		next := fr.execBlock(b)
		if next == nil {
			fr.block = nil
			return
		}
		fr.prev = b
		fr.block = next
	}
}

func (fr *frame) runDefers() {
	for len(fr.defers) > 0 {
		d := fr.defers[len(fr.defers)-1]
		fr.defers = fr.defers[:len(fr.defers)-1]
		fr.p.callValue(d.fn, d.args, fr, d.site)
	}
}

func (fr *frame) execBlock(b *ssa.BasicBlock) *ssa.BasicBlock {
	p := fr.p
	for _, ins := range b.Instrs {
		p.steps++
		if pos := ins.Pos(); pos.IsValid() {
			p.lastPos, p.curFn = pos, fr.fn
		}
		if p.steps > p.H.MaxSteps {
			p.end("budget", "more than %d interpreter steps on one path", p.H.MaxSteps)
		}
		switch x := ins.(type) {
		case *ssa.DebugRef:
		case *ssa.Phi:
			for i, pred := range b.Preds {
				if pred == fr.prev {
					fr.env[x] = fr.get(x.Edges[i])
					break
				}
			}
		case *ssa.Jump:
			return b.Succs[0]
		case *ssa.If:
			c := fr.get(x.Cond).(*term.T)
			if p.fork(c) {
				return b.Succs[0]
			}
			return b.Succs[1]
		case *ssa.Return:
			switch len(x.Results) {
			case 0:
				fr.result = nil
			case 1:
				fr.result = fr.get(x.Results[0])
			default:
				tv := make(TupleV, len(x.Results))
				for i, r := range x.Results {
					tv[i] = fr.get(r)
				}
				fr.result = tv
			}
			return nil
		case *ssa.RunDefers:
			fr.runDefers()
		case *ssa.Panic:
			v := fr.get(x.X)
			msg := "panic"
			if iv, ok := v.(*IfaceV); ok {
				if s, ok := iv.V.(StrV); ok {
					msg = "panic: " + string(s)
				} else if iv.T != nil {
					msg = "panic: value of type " + iv.T.String()
					if ptr, ok := iv.V.(*Ptr); ok && ptr.Obj != nil {
						// errors.New style: try to show the message
						if sv, ok := ptr.Obj.Val.(*StructV); ok && len(sv.F) == 1 {
							if s, ok := sv.F[0].(StrV); ok {
								msg = "panic: " + string(s)
							}
						}
					}
				}
			}
			panic(&goPanic{val: v, msg: msg, pos: p.where()})
		case *ssa.Store:
			ptr := fr.get(x.Addr).(*Ptr)
			p.store(ptr, fr.get(x.Val))
		case *ssa.Defer:
			fn, args := fr.prepareCall(&x.Call)
			fr.defers = append(fr.defers, deferred{fn, args, x})
		case *ssa.Go:
			// One schedule only: the goroutine runs to completion at the spawn point. Sound for
			// fork-join code whose goroutines do not wait for each other (WaitGroup/errgroup
			// joins are no-ops then); anything that blocks on a channel still ends the path.
			p.stubs["go statements run the goroutine to completion at the spawn point (one schedule; WaitGroup/errgroup joins are no-ops)"] = true
			fn, args := fr.prepareCall(&x.Call)
			p.callValue(fn, args, fr, x)
		case *ssa.Send:
			p.unsupported("channel send in %s", fr.fn)
		case *ssa.MapUpdate:
			p.mapUpdate(fr.get(x.Map), fr.get(x.Key), fr.get(x.Value))
		case ssa.Value:
			fr.env[x] = fr.eval(x)
		default:
			p.unsupported("instruction %T", ins)
		}
	}
	p.end("unsupported", "internal: block without terminator")
	return nil
}

// prepareCall evaluates callee and arguments of a call.
func (fr *frame) prepareCall(c *ssa.CallCommon) (Value, []Value) {
	p := fr.p
	var fn Value
	var args []Value
	if c.IsInvoke() {
		recv := fr.get(c.Value)
		iv, ok := recv.(*IfaceV)
		if !ok {
			if o, ok := recv.(*OpaqueV); ok {
				p.unsupported("method %s invoked on opaque value %s", c.Method.Name(), o.Name)
			}
			p.unsupported("invoke on %T", recv)
		}
		if iv.T == nil {
			p.gopanic("runtime error: invalid memory address or nil pointer dereference (nil interface method call)")
		}
		m := p.E.lookupMethod(iv.T, c.Method)
		if m == nil {
			p.unsupported("no method %s on %v", c.Method.Name(), iv.T)
		}
		fn = &FuncV{Fn: m}
		args = append(args, iv.V)
	} else {
		fn = fr.get(c.Value)
	}
	for _, a := range c.Args {
		args = append(args, fr.get(a))
	}
	return fn, args
}

func (p *Path) callValue(fnv Value, args []Value, caller *frame, site ssa.CallInstruction) Value {
	f, ok := fnv.(*FuncV)
	if !ok {
		if o, ok := fnv.(*OpaqueV); ok {
			if p.inInit > 0 {
				return p.opaqueResult(site, "call of opaque "+o.Name)
			}
			p.unsupported("call of opaque function value %s", o.Name)
		}
		p.unsupported("call of %T", fnv)
	}
	if f.Builtin != nil {
		return p.callBuiltin(f.Builtin, args, caller, site)
	}
	if f.Fn == nil {
		p.gopanic("runtime error: invalid memory address or nil pointer dereference (nil func call)")
	}
	fn := f.Fn
	if p.H.ufSet != nil && p.H.ufSet[fn.String()] {
		return p.callUF(fn, args)
	}
	if p.H.Summaries != nil && p.inInit == 0 {
		if repl, ok := p.H.Summaries[fn.String()]; ok {
			i := strings.LastIndex(repl, ".")
			pkg := p.E.Prog.ImportedPackage(repl[:i])
			if pkg == nil || pkg.Func(repl[i+1:]) == nil {
				p.unsupported("summary function %s not found", repl)
			}
			p.stubs["summary: "+fn.String()+" replaced by "+repl+" (proved equal by another harness of this property)"] = true
			return p.callFunction(pkg.Func(repl[i+1:]), args, nil, caller)
		}
	}
	if h := p.E.intrinsic(fn); h != nil {
		return h(p, caller, fn, args, site)
	}
	if p.inInit > 0 {
		if fn.Name() == "init" && fn.Synthetic != "" && len(args) == 0 && caller != nil && caller.fn.Pkg != fn.Pkg {
			return nil // dependency initialisers run lazily
		}
		var res Value
		ok := func() (ok bool) {
			defer func() {
				if r := recover(); r != nil {
					if pe, isPE := r.(*pathEnd); isPE && pe.kind == "unsupported" {
						ok = false
						return
					}
					if _, isRT := r.(runtime.Error); isRT {
						// an operation on an opaque init-time value the interpreter has no case for
						ok = false
						return
					}
					if _, isGP := r.(*goPanic); isGP {
						ok = false
						return
					}
					panic(r)
				}
			}()
			res = p.callFunction(fn, args, f.Bind, caller)
			return true
		}()
		if !ok {
			return p.opaqueOf(fn.Signature.Results(), "init-time call "+fn.String())
		}
		return res
	}
	return p.callFunction(fn, args, f.Bind, caller)
}

func (p *Path) opaqueResult(site ssa.CallInstruction, why string) Value {
	if site == nil {
		return nil
	}
	return p.opaqueOf(site.Common().Signature().Results(), why)
}

func (p *Path) opaqueOf(res *types.Tuple, why string) Value {
	switch res.Len() {
	case 0:
		return nil
	case 1:
		return &OpaqueV{Name: why, T: res.At(0).Type()}
	}
	tv := make(TupleV, res.Len())
	for i := range tv {
		tv[i] = &OpaqueV{Name: why, T: res.At(i).Type()}
	}
	return tv
}

// eval evaluates a value-producing instruction.
func (fr *frame) eval(ins ssa.Value) Value {
	p := fr.p
	switch x := ins.(type) {
	case *ssa.Alloc:
		t := deref(x.Type())
		o := p.newObj(t, p.zero(t), x.Comment)
		return &Ptr{Obj: o}
	case *ssa.BinOp:
		return p.binop(x.Op, fr.get(x.X), fr.get(x.Y), x.X.Type(), x.Y.Type(), x.Pos())
	case *ssa.UnOp:
		return fr.unop(x)
	case *ssa.Call:
		fn, args := fr.prepareCall(&x.Call)
		return p.callValue(fn, args, fr, x)
	case *ssa.ChangeType:
		return fr.get(x.X)
	case *ssa.ChangeInterface:
		return fr.get(x.X)
	case *ssa.Convert:
		return p.convert(fr.get(x.X), x.X.Type(), x.Type())
	case *ssa.MultiConvert:
		return p.convert(fr.get(x.X), x.X.Type(), x.Type())
	case *ssa.Extract:
		return fr.get(x.Tuple).(TupleV)[x.Index]
	case *ssa.Field:
		v := fr.get(x.X)
		s, ok := v.(*StructV)
		if !ok {
			p.unsupported("field of %T", v)
		}
		return s.F[x.Field]
	case *ssa.FieldAddr:
		ptr := fr.get(x.X).(*Ptr)
		if ptr.Obj == nil {
			p.gopanic("runtime error: invalid memory address or nil pointer dereference")
		}
		return &Ptr{Obj: ptr.Obj, Path: extPath(ptr.Path, Sel{Field: x.Field})}
	case *ssa.Index:
		return fr.index(x)
	case *ssa.IndexAddr:
		return fr.indexAddr(x)
	case *ssa.Lookup:
		return p.lookup(fr.get(x.X), fr.get(x.Index), x)
	case *ssa.MakeClosure:
		b := make([]Value, len(x.Bindings))
		for i, bv := range x.Bindings {
			b[i] = fr.get(bv)
		}
		return &FuncV{Fn: x.Fn.(*ssa.Function), Bind: b}
	case *ssa.MakeInterface:
		return &IfaceV{T: x.X.Type(), V: fr.get(x.X)}
	case *ssa.MakeMap:
		mt := x.Type().Underlying().(*types.Map)
		p.nextObj++
		return &MapV{M: &MapObj{ID: p.nextObj, KT: mt.Key(), VT: mt.Elem()}}
	case *ssa.MakeSlice:
		return fr.makeSlice(x)
	case *ssa.MakeChan:
		if sz, ok := fr.get(x.Size).(*term.T); ok && sz.IsConst() {
			p.stubs["buffered channels are FIFO queues under one schedule; only non-blocking select is supported"] = true
			return &ChanV{C: &ChanObj{Cap: int(sz.Uint64())}}
		}
		return &OpaqueV{Name: "chan", T: x.Type()}
	case *ssa.Range:
		return p.rangeIter(fr.get(x.X), x.X.Type())
	case *ssa.Next:
		return p.next(fr.get(x.Iter).(*iterV), x)
	case *ssa.Slice:
		return fr.slice(x)
	case *ssa.SliceToArrayPointer:
		s := fr.get(x.X).(*SliceV)
		n := deref(x.Type()).Underlying().(*types.Array).Len()
		if !p.forkLikely(p.F.BvUge(s.Len, p.F.BVConst64(uint64(n), 64))) {
			p.gopanic("runtime error: cannot convert slice to array pointer: length too short")
		}
		if s.Obj == nil {
			return &Ptr{}
		}
		off := p.concretize(s.Off, "slice-to-array-pointer offset")
		if off == 0 {
			if arr, ok := p.loadAt(s.Obj.Val, s.Base).(*ArrayV); ok && int64(len(arr.E)) == n {
				return &Ptr{Obj: s.Obj, Path: s.Base}
			}
		}
		p.unsupported("slice to array pointer at offset %d (sub-array view)", off)
	case *ssa.TypeAssert:
		return fr.typeAssert(x)
	case *ssa.Select:
		if x.Blocking {
			p.unsupported("blocking select statement in %s", fr.fn)
		}
		// non-blocking select over buffered channels (free-list idiom): first ready case, else default
		tt := x.Type().(*types.Tuple)
		res := make(TupleV, tt.Len())
		res[0] = p.F.BVConstI(-1, 64)
		res[1] = p.F.False()
		for i := 2; i < tt.Len(); i++ {
			res[i] = p.zero(tt.At(i).Type())
		}
		slot := 2
		for i, st := range x.States {
			ch, ok := fr.get(st.Chan).(*ChanV)
			if !ok || ch.C == nil {
				p.unsupported("select on an unmodelled channel in %s", fr.fn)
			}
			if st.Dir == types.RecvOnly {
				if len(ch.C.Q) > 0 && res[0].(*term.T).SignedVal().Sign() < 0 {
					res[0] = p.F.BVConst64(uint64(i), 64)
					res[1] = p.F.True()
					res[slot] = ch.C.Q[0]
					ch.C.Q = ch.C.Q[1:]
				}
				slot++
			} else if len(ch.C.Q) < ch.C.Cap && res[0].(*term.T).SignedVal().Sign() < 0 {
				res[0] = p.F.BVConst64(uint64(i), 64)
				ch.C.Q = append(ch.C.Q, fr.get(st.Send))
			}
		}
		return res
	}
	p.unsupported("instruction %T (%s)", ins, ins)
	return nil
}

func (fr *frame) unop(x *ssa.UnOp) Value {
	p := fr.p
	v := fr.get(x.X)
	switch x.Op {
	case token.MUL: // load
		ptr, ok := v.(*Ptr)
		if !ok {
			if o, ok := v.(*OpaqueV); ok {
				p.unsupported("load through opaque pointer %s", o.Name)
			}
			p.unsupported("load through %T", v)
		}
		return p.load(ptr)
	case token.NOT:
		return p.F.Not(v.(*term.T))
	case token.SUB:
		if t, ok := v.(*term.T); ok {
			return p.F.BvNeg(t)
		}
		p.unsupported("negation of %T", v)
	case token.XOR:
		return p.F.BvNot(v.(*term.T))
	case token.ARROW:
		p.unsupported("channel receive in %s", fr.fn)
	}
	p.unsupported("unary op %v", x.Op)
	return nil
}

func (fr *frame) typeAssert(x *ssa.TypeAssert) Value {
	p := fr.p
	v := fr.get(x.X)
	iv, ok := v.(*IfaceV)
	if !ok {
		if o, ok := v.(*OpaqueV); ok {
			p.unsupported("type assertion on opaque value %s", o.Name)
		}
		p.unsupported("type assert on %T", v)
	}
	var res Value
	okb := false
	if iv.T != nil {
		if types.IsInterface(x.AssertedType) {
			if it, isI := x.AssertedType.Underlying().(*types.Interface); isI && types.Implements(iv.T, it) {
				okb = true
				res = iv
			}
		} else if types.Identical(iv.T, x.AssertedType) {
			okb = true
			res = iv.V
		}
	}
	if x.CommaOk {
		if !okb {
			res = p.zero(x.AssertedType)
		}
		return TupleV{res, p.F.BoolConst(okb)}
	}
	if !okb {
		p.gopanic(fmt.Sprintf("interface conversion: interface is %v, not %v", iv.T, x.AssertedType))
	}
	return res
}

func (fr *frame) index(x *ssa.Index) Value {
	p := fr.p
	base := fr.get(x.X)
	idx := p.toIndex(fr.get(x.Index), x.Index.Type())
	switch b := base.(type) {
	case *ArrayV:
		n := len(b.E)
		if !p.forkLikely(p.F.BvUlt(idx, p.F.BVConst64(uint64(n), 64))) {
			p.gopanic("runtime error: index out of range")
		}
		return p.loadAt(b, []Sel{{Idx: idx}})
	case StrV:
		if !p.forkLikely(p.F.BvUlt(idx, p.F.BVConst64(uint64(len(b)), 64))) {
			p.gopanic("runtime error: index out of range")
		}
		if i, ok := p.idxConst(idx); ok {
			return p.F.BVConst64(uint64(b[i]), 8)
		}
		n := len(b)
		res := p.F.BVConst64(uint64(b[n-1]), 8)
		for i := n - 2; i >= 0; i-- {
			res = p.F.Ite(p.F.Eq(idx, p.F.BVConst64(uint64(i), 64)), p.F.BVConst64(uint64(b[i]), 8), res)
		}
		return res
	case *SymStr:
		if !p.forkLikely(p.F.BvUlt(idx, p.F.BVConst64(uint64(len(b.B)), 64))) {
			p.gopanic("runtime error: index out of range")
		}
		n := len(b.B)
		res := b.B[n-1]
		for i := n - 2; i >= 0; i-- {
			res = p.F.Ite(p.F.Eq(idx, p.F.BVConst64(uint64(i), 64)), b.B[i], res)
		}
		return res
	}
	p.unsupported("index on %T", base)
	return nil
}

// toIndex converts an integer value of any width to a 64-bit index term.
func (p *Path) toIndex(v Value, t types.Type) *term.T {
	x, ok := v.(*term.T)
	if !ok {
		p.unsupported("index of %T", v)
	}
	w, signed, _ := intInfo(t)
	if w == 0 {
		w, signed = x.Sort.W, true
	}
	return p.F.Resize(x, 64, signed)
}

func (fr *frame) indexAddr(x *ssa.IndexAddr) Value {
	p := fr.p
	base := fr.get(x.X)
	idx := p.toIndex(fr.get(x.Index), x.Index.Type())
	switch b := base.(type) {
	case *SliceV:
		if !p.forkLikely(p.F.BvUlt(idx, b.Len)) {
			p.gopanic("runtime error: index out of range")
		}
		return p.sliceElemPtr(b, idx)
	case *Ptr:
		if b.Obj == nil {
			p.gopanic("runtime error: invalid memory address or nil pointer dereference")
		}
		n := deref(x.X.Type()).Underlying().(*types.Array).Len()
		if !p.forkLikely(p.F.BvUlt(idx, p.F.BVConst64(uint64(n), 64))) {
			p.gopanic("runtime error: index out of range")
		}
		return &Ptr{Obj: b.Obj, Path: extPath(b.Path, Sel{Idx: idx})}
	case *OpaqueV:
		p.unsupported("index into opaque %s", b.Name)
	}
	p.unsupported("indexaddr on %T", base)
	return nil
}

func (fr *frame) makeSlice(x *ssa.MakeSlice) Value {
	p := fr.p
	ln := p.toIndex(fr.get(x.Len), x.Len.Type())
	cp := p.toIndex(fr.get(x.Cap), x.Cap.Type())
	// Go: panics if len < 0 or len > cap or cap < 0
	if !p.forkLikely(p.F.BvUle(ln, cp)) {
		p.gopanic("runtime error: makeslice: len out of range")
	}
	if !p.forkLikely(p.F.BvSge(cp, p.F.BVConst64(0, 64))) {
		p.gopanic("runtime error: makeslice: cap out of range")
	}
	if !p.forkLikely(p.F.BvUle(cp, p.F.BVConst64(uint64(p.H.MaxAlloc), 64))) {
		p.end("budget", "make() may exceed the harness allocation bound %d", p.H.MaxAlloc)
	}
	var c uint64
	sameLenCap := ln == cp
	c = p.concretize(cp, "make cap")
	et := x.Type().Underlying().(*types.Slice).Elem()
	at := types.NewArray(et, int64(c))
	o := p.newObj(at, p.zero(at), "makeslice")
	ct := p.F.BVConst64(c, 64)
	if sameLenCap {
		ln = ct
	}
	return &SliceV{Obj: o, Off: p.F.BVConst64(0, 64), Len: ln, Cap: ct}
}

func (fr *frame) slice(x *ssa.Slice) Value {
	p := fr.p
	base := fr.get(x.X)
	var lo, hi, mx *term.T
	if x.Low != nil {
		lo = p.toIndex(fr.get(x.Low), x.Low.Type())
	} else {
		lo = p.F.BVConst64(0, 64)
	}
	if x.High != nil {
		hi = p.toIndex(fr.get(x.High), x.High.Type())
	}
	if x.Max != nil {
		mx = p.toIndex(fr.get(x.Max), x.Max.Type())
	}
	chk := func(c *term.T) {
		if !p.forkLikely(c) {
			p.gopanic("runtime error: slice bounds out of range")
		}
	}
	switch b := base.(type) {
	case *SliceV:
		if hi == nil {
			hi = b.Len
		}
		capEnd := b.Cap
		if mx != nil {
			chk(p.F.BvUle(mx, b.Cap))
			capEnd = mx
		}
		chk(p.F.BvUle(hi, capEnd))
		chk(p.F.BvUle(lo, hi))
		if b.Obj == nil {
			return b
		}
		return &SliceV{Obj: b.Obj, Base: b.Base, Off: p.F.BvAdd(b.Off, lo), Len: p.F.BvSub(hi, lo), Cap: p.F.BvSub(capEnd, lo)}
	case *Ptr: // pointer to array
		if b.Obj == nil {
			p.gopanic("runtime error: invalid memory address or nil pointer dereference")
		}
		n := uint64(deref(x.X.Type()).Underlying().(*types.Array).Len())
		nt := p.F.BVConst64(n, 64)
		if hi == nil {
			hi = nt
		}
		capEnd := nt
		if mx != nil {
			chk(p.F.BvUle(mx, nt))
			capEnd = mx
		}
		chk(p.F.BvUle(hi, capEnd))
		chk(p.F.BvUle(lo, hi))
		return &SliceV{Obj: b.Obj, Base: b.Path, Off: lo, Len: p.F.BvSub(hi, lo), Cap: p.F.BvSub(capEnd, lo)}
	case StrV:
		n := p.F.BVConst64(uint64(len(b)), 64)
		if hi == nil {
			hi = n
		}
		chk(p.F.BvUle(hi, n))
		chk(p.F.BvUle(lo, hi))
		l := p.concretize(lo, "string slice low")
		h := p.concretize(hi, "string slice high")
		return b[l:h]
	case *SymStr:
		n := p.F.BVConst64(uint64(len(b.B)), 64)
		if hi == nil {
			hi = n
		}
		chk(p.F.BvUle(hi, n))
		chk(p.F.BvUle(lo, hi))
		l := p.concretize(lo, "string slice low")
		h := p.concretize(hi, "string slice high")
		return &SymStr{B: b.B[l:h]}
	}
	p.unsupported("slice of %T", base)
	return nil
}

// sliceElems returns the element values of s[0:n] for concrete n (offset may be symbolic).
func (p *Path) sliceElems(s *SliceV, n int) []Value {
	out := make([]Value, n)
	if n == 0 {
		return out
	}
	for i := 0; i < n; i++ {
		out[i] = p.load(p.sliceElemPtr(s, p.F.BVConst64(uint64(i), 64)))
	}
	return out
}

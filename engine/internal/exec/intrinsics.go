package exec

import (
	"fmt"
	"go/types"
	"sync"

	"gosmt/internal/smt"
	"gosmt/internal/term"

	"golang.org/x/tools/go/ssa"
)

func registerIntrinsics(e *Engine) {
	r := func(name string, h Intrinsic) { e.intr[name] = h }

	// ----- harness API -----
	scalar := func(kind string, w int) Intrinsic {
		return func(p *Path, _ *frame, _ *ssa.Function, _ []Value, _ ssa.CallInstruction) Value {
			return p.nondetScalar(kind, w)
		}
	}
	r("zz:zzNondetBool", scalar("bool", 0))
	r("zz:zzNondetU8", scalar("u8", 8))
	r("zz:zzNondetU16", scalar("u16", 16))
	r("zz:zzNondetU32", scalar("u32", 32))
	r("zz:zzNondetU64", scalar("u64", 64))
	r("zz:zzNondetI64", scalar("i64", 64))
	r("zz:zzNondetInt", scalar("int", 64))
	r("zz:zzNondetBytes", func(p *Path, _ *frame, _ *ssa.Function, args []Value, _ ssa.CallInstruction) Value {
		mx := args[0].(*term.T)
		if !mx.IsConst() {
			p.unsupported("zzNondetBytes with symbolic max")
		}
		n := int(mx.Uint64())
		idx := len(p.nondets)
		ln := p.F.Var(fmt.Sprintf("n%d_len", idx), term.BV(64))
		rec := nondetRec{Kind: "bytes", Max: n, Terms: []*term.T{ln}}
		arr := &ArrayV{E: make([]Value, n)}
		for i := 0; i < n; i++ {
			b := p.F.Var(fmt.Sprintf("n%d_b%d", idx, i), term.BV(8))
			arr.E[i] = b
			rec.Terms = append(rec.Terms, b)
		}
		p.nondets = append(p.nondets, rec)
		p.assume(p.F.BvUle(ln, p.F.BVConst64(uint64(n), 64)))
		o := p.newObj(types.NewArray(types.Typ[types.Uint8], int64(n)), arr, "nondet-bytes")
		return &SliceV{Obj: o, Off: p.F.BVConst64(0, 64), Len: ln, Cap: p.F.BVConst64(uint64(n), 64)}
	})
	// zzNondetBytesN(n): exactly n symbolic bytes
	r("zz:zzNondetBytesN", func(p *Path, _ *frame, _ *ssa.Function, args []Value, _ ssa.CallInstruction) Value {
		mx := args[0].(*term.T)
		n := int(p.concretize(mx, "zzNondetBytesN length"))
		idx := len(p.nondets)
		ln := p.F.BVConst64(uint64(n), 64)
		rec := nondetRec{Kind: "bytes", Max: n, Terms: []*term.T{ln}}
		arr := &ArrayV{E: make([]Value, n)}
		for i := 0; i < n; i++ {
			b := p.F.Var(fmt.Sprintf("n%d_b%d", idx, i), term.BV(8))
			arr.E[i] = b
			rec.Terms = append(rec.Terms, b)
		}
		p.nondets = append(p.nondets, rec)
		o := p.newObj(types.NewArray(types.Typ[types.Uint8], int64(n)), arr, "nondet-bytes")
		return &SliceV{Obj: o, Off: p.F.BVConst64(0, 64), Len: ln, Cap: ln}
	})
	r("zz:zzChoice", func(p *Path, _ *frame, _ *ssa.Function, args []Value, _ ssa.CallInstruction) Value {
		n := args[0].(*term.T)
		v := p.nondetScalar("int", 64)
		p.assume(p.F.BvUlt(v, n))
		return p.F.BVConst64(p.concretize(v, "zzChoice"), 64)
	})
	r("zz:zzBound", func(p *Path, _ *frame, _ *ssa.Function, args []Value, _ ssa.CallInstruction) Value {
		name, ok := args[0].(StrV)
		if !ok {
			p.unsupported("zzBound with non-constant name")
		}
		v, ok := p.H.Bounds[string(name)]
		if !ok {
			p.end("unsupported", "zzBound(%q): no such bound in spec", string(name))
		}
		return p.F.BVConstI(int64(v), 64)
	})
	r("zz:zzAssume", func(p *Path, _ *frame, _ *ssa.Function, args []Value, _ ssa.CallInstruction) Value {
		p.assume(args[0].(*term.T))
		return nil
	})
	r("zz:zzAssert", func(p *Path, caller *frame, _ *ssa.Function, args []Value, site ssa.CallInstruction) Value {
		label, _ := args[1].(StrV)
		if !p.forkLikely(args[0].(*term.T)) {
			pos := ""
			if site != nil {
				pos = posStr(p.E.Fset, site.Pos())
			}
			v := p.mkViolation("assert", string(label), pos)
			if v == nil {
				if k, _ := p.extra["vkind"].(string); k != "" {
					p.end("unknown", "solver gave no model for the failing assertion %q", string(label))
				}
				p.end("infeasible", "assertion-failure branch infeasible")
			}
			p.extra["violation"] = v
			p.end("violation", "assertion %q fails", string(label))
		}
		return nil
	})
	boolList := func(p *Path, v Value) []*term.T {
		s := v.(*SliceV)
		n := int(p.concretize(s.Len, "zzAll/zzAny arity"))
		var out []*term.T
		for _, e := range p.sliceElems(s, n) {
			out = append(out, e.(*term.T))
		}
		return out
	}
	r("zz:zzAll", func(p *Path, _ *frame, _ *ssa.Function, args []Value, _ ssa.CallInstruction) Value {
		res := p.F.True()
		for _, c := range boolList(p, args[0]) {
			res = p.F.And(res, c)
		}
		return res
	})
	r("zz:zzAny", func(p *Path, _ *frame, _ *ssa.Function, args []Value, _ ssa.CallInstruction) Value {
		res := p.F.False()
		for _, c := range boolList(p, args[0]) {
			res = p.F.Or(res, c)
		}
		return res
	})
	r("zz:zzBytesEq", func(p *Path, _ *frame, _ *ssa.Function, args []Value, _ ssa.CallInstruction) Value {
		a, b := args[0].(*SliceV), args[1].(*SliceV)
		// lengths may be symbolic: compare under each feasible pair of lengths
		la := int(p.concretize(a.Len, "zzBytesEq len(a)"))
		lb := int(p.concretize(b.Len, "zzBytesEq len(b)"))
		if la != lb {
			return p.F.False()
		}
		if la > 0 {
			if !a.Off.IsConst() {
				p.concretize(a.Off, "zzBytesEq off(a)")
			}
			if !b.Off.IsConst() {
				p.concretize(b.Off, "zzBytesEq off(b)")
			}
		}
		ea, eb := p.sliceElems(a, la), p.sliceElems(b, lb)
		res := p.F.True()
		for i := range ea {
			res = p.F.And(res, p.F.Eq(ea[i].(*term.T), eb[i].(*term.T)))
		}
		return res
	})
	r("zz:zzConcretize", func(p *Path, _ *frame, _ *ssa.Function, args []Value, _ ssa.CallInstruction) Value {
		return p.F.BVConst64(p.concretize(args[0].(*term.T), "zzConcretize"), 64)
	})
	// zzFixSlice(b): the same slice after case-splitting the path over its offset, length
	// and capacity, so that later indexing needs no bounds queries.
	r("zz:zzFixSlice", func(p *Path, _ *frame, _ *ssa.Function, args []Value, _ ssa.CallInstruction) Value {
		s, ok := args[0].(*SliceV)
		if !ok || s.Obj == nil {
			return args[0]
		}
		F := p.F
		n := &SliceV{Obj: s.Obj, Base: s.Base, Off: s.Off, Len: s.Len, Cap: s.Cap}
		if !n.Len.IsConst() {
			n.Len = F.BVConst64(p.concretize(n.Len, "zzFixSlice len"), 64)
		}
		if !n.Off.IsConst() {
			n.Off = F.BVConst64(p.concretize(n.Off, "zzFixSlice off"), 64)
		}
		if !n.Cap.IsConst() {
			n.Cap = F.BVConst64(p.concretize(n.Cap, "zzFixSlice cap"), 64)
		}
		return n
	})
	r("zz:zzIte", func(p *Path, _ *frame, _ *ssa.Function, args []Value, _ ssa.CallInstruction) Value {
		return p.F.Ite(args[0].(*term.T), args[1].(*term.T), args[2].(*term.T))
	})
	r("zz:zzImplies", func(p *Path, _ *frame, _ *ssa.Function, args []Value, _ ssa.CallInstruction) Value {
		return p.F.Implies(args[0].(*term.T), args[1].(*term.T))
	})
	r("zz:zzReach", func(p *Path, _ *frame, _ *ssa.Function, args []Value, _ ssa.CallInstruction) Value {
		label := string(args[0].(StrV))
		p.reach[label] = true
		res := p.extra["res"].(*HarnessResult)
		rmu := p.extra["rmu"].(*sync.Mutex)
		rmu.Lock()
		seen := res.Reached[label]
		rmu.Unlock()
		if !seen {
			if r, _ := p.check(nil, nil); r == smt.Sat {
				rmu.Lock()
				res.Reached[label] = true
				rmu.Unlock()
			}
		}
		return nil
	})
	r("zz:zzObserve", func(p *Path, _ *frame, _ *ssa.Function, args []Value, site ssa.CallInstruction) Value {
		label := string(args[0].(StrV))
		iv, ok := args[1].(*IfaceV)
		if !ok || iv.T == nil {
			p.obs = append(p.obs, obsRec{Label: label, Kind: "const"})
			return nil
		}
		p.observe(label, iv.V, iv.T)
		return nil
	})
	r("zz:zzExpectPanic", func(p *Path, caller *frame, _ *ssa.Function, args []Value, site ssa.CallInstruction) Value {
		label, _ := args[0].(StrV)
		panicked := func() (pk bool) {
			defer func() {
				if r := recover(); r != nil {
					if _, ok := r.(*goPanic); ok {
						pk = true
						return
					}
					panic(r)
				}
			}()
			p.callValue(args[1], nil, caller, nil)
			return false
		}()
		if !panicked {
			v := p.mkViolation("assert", "expected panic did not occur: "+string(label), "")
			if v == nil {
				p.end("infeasible", "no model")
			}
			p.extra["violation"] = v
			p.end("violation", "expected panic %q did not occur", string(label))
		}
		return nil
	})

	// ----- sync: single-threaded exploration -----
	nop := func(p *Path, _ *frame, fn *ssa.Function, _ []Value, _ ssa.CallInstruction) Value {
		p.stubs[fn.String()+" (no-op)"] = true
		return nil
	}
	for _, n := range []string{
		"(*sync.Mutex).Lock", "(*sync.Mutex).Unlock", "(*sync.RWMutex).Lock", "(*sync.RWMutex).Unlock",
		"(*sync.RWMutex).RLock", "(*sync.RWMutex).RUnlock", "runtime.KeepAlive", "runtime.GC",
		"(*sync.WaitGroup).Add", "(*sync.WaitGroup).Done", "(*sync.WaitGroup).Wait",
		"runtime.SetFinalizer", "runtime.Gosched",
	} {
		r(n, nop)
	}
	// errgroup: Go runs the function at once and keeps the first error, Wait returns it
	r("(*golang.org/x/sync/errgroup.Group).Go", func(p *Path, caller *frame, fn *ssa.Function, args []Value, site ssa.CallInstruction) Value {
		p.stubs["go statements run the goroutine to completion at the spawn point (one schedule; WaitGroup/errgroup joins are no-ops)"] = true
		res := p.callValue(args[1], nil, caller, site)
		g := args[0].(*Ptr)
		m, _ := p.extra["errgroup"].(map[*Obj]Value)
		if m == nil {
			m = map[*Obj]Value{}
			p.extra["errgroup"] = m
		}
		if _, seen := m[g.Obj]; !seen {
			if iv, ok := res.(*IfaceV); ok && iv.T != nil {
				m[g.Obj] = res
			}
		}
		return nil
	})
	r("(*golang.org/x/sync/errgroup.Group).Wait", func(p *Path, _ *frame, fn *ssa.Function, args []Value, _ ssa.CallInstruction) Value {
		g := args[0].(*Ptr)
		if m, _ := p.extra["errgroup"].(map[*Obj]Value); m != nil {
			if e, ok := m[g.Obj]; ok {
				return e
			}
		}
		return &IfaceV{}
	})
	r("(*sync.Mutex).TryLock", func(p *Path, _ *frame, fn *ssa.Function, _ []Value, _ ssa.CallInstruction) Value {
		return p.F.True()
	})
	r("(*sync.Once).Do", func(p *Path, caller *frame, fn *ssa.Function, args []Value, _ ssa.CallInstruction) Value {
		o := args[0].(*Ptr)
		key := "once"
		m, _ := p.extra[key].(map[*Obj]bool)
		if m == nil {
			m = map[*Obj]bool{}
			p.extra[key] = m
		}
		if !m[o.Obj] {
			m[o.Obj] = true
			p.callValue(args[1], nil, caller, nil)
		}
		return nil
	})
	// sync.Pool: Get returns New() (fresh object); Put is recorded.
	r("(*sync.Pool).Get", func(p *Path, caller *frame, fn *ssa.Function, args []Value, _ ssa.CallInstruction) Value {
		p.stubs["sync.Pool.Get returns either New() or, nondeterministically, the most recently Put object"] = true
		pool := args[0].(*Ptr)
		if q := p.pools[pool.Obj]; len(q) > 0 {
			if p.choice(2) == 0 {
				v := q[len(q)-1]
				p.pools[pool.Obj] = q[:len(q)-1]
				return v
			}
		}
		sv := p.load(pool).(*StructV)
		// field "New" is the last field
		st := deref(fn.Signature.Recv().Type()).Underlying().(*types.Struct)
		for i := 0; i < st.NumFields(); i++ {
			if st.Field(i).Name() == "New" {
				nf := sv.F[i].(*FuncV)
				if nf.Fn == nil {
					return &IfaceV{}
				}
				return p.callValue(nf, nil, caller, nil)
			}
		}
		return &IfaceV{}
	})
	r("(*sync.Pool).Put", func(p *Path, caller *frame, fn *ssa.Function, args []Value, _ ssa.CallInstruction) Value {
		pool := args[0].(*Ptr)
		p.pools[pool.Obj] = append(p.pools[pool.Obj], args[1])
		return nil
	})

	// ----- unique.Make: canonical handle per distinct (concrete) value -----
	r("unique.Make", func(p *Path, _ *frame, fn *ssa.Function, args []Value, _ ssa.CallInstruction) Value {
		type ent struct {
			typ string
			val Value
			obj *Obj
		}
		vt := fn.Signature.Params().At(0).Type()
		tab, _ := p.extra["unique"].([]ent)
		for _, e := range tab {
			if e.typ != vt.String() {
				continue
			}
			eq := p.valEq(e.val, args[0])
			if eq.IsTrue() {
				return &StructV{F: []Value{&Ptr{Obj: e.obj}}}
			}
			if !eq.IsFalse() {
				p.unsupported("unique.Make of a symbolic value")
			}
		}
		o := p.newObj(vt, copyVal(args[0]), "unique")
		p.extra["unique"] = append(tab, ent{vt.String(), copyVal(args[0]), o})
		return &StructV{F: []Value{&Ptr{Obj: o}}}
	})

	// ----- time.Now: an arbitrary instant (wall clock reading without monotonic part) -----
	r("time.Now", func(p *Path, _ *frame, fn *ssa.Function, _ []Value, _ ssa.CallInstruction) Value {
		p.stubs["time.Now returns an arbitrary instant"] = true
		p.nchoice++
		ext := p.F.Var(fmt.Sprintf("c%d_now", p.nchoice), term.BV(64))
		p.assume(p.F.BvUlt(ext, p.F.BVConst64(1<<62, 64)))
		return &StructV{F: []Value{p.F.BVConst64(0, 64), ext, &Ptr{}}}
	})

	// ----- internal/bytealg (assembly on amd64): exact definitions over a case-split length -----
	byteElems := func(p *Path, v Value, why string) []*term.T {
		switch s := v.(type) {
		case *SliceV:
			n := int(p.concretize(s.Len, why+" length"))
			if n > 0 && !s.Off.IsConst() {
				p.concretize(s.Off, why+" offset")
			}
			out := make([]*term.T, n)
			for i, e := range p.sliceElems(s, n) {
				out[i] = e.(*term.T)
			}
			return out
		case StrV:
			return p.strTerms(s)
		case *SymStr:
			return s.B
		}
		p.unsupported("%s on %T", why, v)
		return nil
	}
	count := func(p *Path, _ *frame, _ *ssa.Function, args []Value, _ ssa.CallInstruction) Value {
		F := p.F
		c := args[1].(*term.T)
		n := F.BVConst64(0, 64)
		for _, e := range byteElems(p, args[0], "bytealg.Count") {
			n = F.BvAdd(n, F.Ite(F.Eq(e, c), F.BVConst64(1, 64), F.BVConst64(0, 64)))
		}
		return n
	}
	r("internal/bytealg.Count", count)
	r("internal/bytealg.CountString", count)
	indexByte := func(p *Path, _ *frame, _ *ssa.Function, args []Value, _ ssa.CallInstruction) Value {
		F := p.F
		c := args[1].(*term.T)
		es := byteElems(p, args[0], "bytealg.IndexByte")
		res := F.BVConstI(-1, 64)
		for i := len(es) - 1; i >= 0; i-- {
			res = F.Ite(F.Eq(es[i], c), F.BVConst64(uint64(i), 64), res)
		}
		return res
	}
	// Compare(a, b): -1, 0, +1 lexicographically (one term)
	r("internal/bytealg.Compare", func(p *Path, _ *frame, _ *ssa.Function, args []Value, _ ssa.CallInstruction) Value {
		F := p.F
		ea, eb := byteElems(p, args[0], "bytealg.Compare"), byteElems(p, args[1], "bytealg.Compare")
		var res *term.T
		switch {
		case len(ea) < len(eb):
			res = F.BVConstI(-1, 64)
		case len(ea) > len(eb):
			res = F.BVConst64(1, 64)
		default:
			res = F.BVConst64(0, 64)
		}
		n := len(ea)
		if len(eb) < n {
			n = len(eb)
		}
		for i := n - 1; i >= 0; i-- {
			res = F.Ite(F.BvUlt(ea[i], eb[i]), F.BVConstI(-1, 64), F.Ite(F.BvUlt(eb[i], ea[i]), F.BVConst64(1, 64), res))
		}
		return res
	})
	r("internal/bytealg.IndexByte", indexByte)
	r("internal/bytealg.IndexByteString", indexByte)

	// ----- crypto/subtle.XORBytes -----
	r("crypto/subtle.XORBytes", func(p *Path, _ *frame, _ *ssa.Function, args []Value, _ ssa.CallInstruction) Value {
		F := p.F
		dst, x, y := args[0].(*SliceV), args[1].(*SliceV), args[2].(*SliceV)
		nT := F.Ite(F.BvUlt(x.Len, y.Len), x.Len, y.Len)
		n := int(p.concretize(nT, "XORBytes length"))
		if n == 0 {
			return F.BVConst64(0, 64)
		}
		if !p.forkLikely(F.BvUge(dst.Len, F.BVConst64(uint64(n), 64))) {
			p.gopanic("subtle.XORBytes: dst too short")
		}
		for _, s := range []*SliceV{dst, x, y} {
			if !s.Off.IsConst() {
				p.concretize(s.Off, "XORBytes offset")
			}
		}
		xe, ye := p.sliceElems(x, n), p.sliceElems(y, n)
		for i := 0; i < n; i++ {
			p.store(p.sliceElemPtr(dst, F.BVConst64(uint64(i), 64)), F.BvXor(xe[i].(*term.T), ye[i].(*term.T)))
		}
		return F.BVConst64(uint64(n), 64)
	})

	// ----- Keccak-f[1600]: uninterpreted permutation (the amd64 build has only assembly) -----
	r("github.com/ethereum/go-ethereum/crypto/keccak.keccakF1600", func(p *Path, _ *frame, _ *ssa.Function, args []Value, _ ssa.CallInstruction) Value {
		F := p.F
		ptr := args[0].(*Ptr)
		p.stubs["keccakF1600 is an uninterpreted function BV1600 -> BV1600"] = true
		arr, ok := p.loadAt(ptr.Obj.Val, ptr.Path).(*ArrayV)
		if !ok || (len(arr.E) != 200 && len(arr.E) != 25) {
			p.unsupported("keccakF1600 on unexpected state representation")
		}
		var in *term.T
		for i := len(arr.E) - 1; i >= 0; i-- {
			e := arr.E[i].(*term.T)
			if in == nil {
				in = e
			} else {
				in = F.Concat(in, e)
			}
		}
		out := F.UF("KF1600", term.BV(1600), in)
		if p.H.KFInjective {
			// collision resistance as an assumption: two sponge states whose permutations agree on
			// the first 256 bits (the Keccak-256 digest) are the same state
			p.stubs["assumption: Keccak-f applications that agree on their first 256 output bits have equal inputs (collision resistance of the digest)"] = true
			seen := false
			for _, prev := range p.ufApps["kf"] {
				if prev == in {
					seen = true
					break
				}
			}
			if !seen {
				for _, prev := range p.ufApps["kf"] {
					po := F.UF("KF1600", term.BV(1600), prev)
					p.addPC(F.Implies(F.Eq(F.Extract(out, 255, 0), F.Extract(po, 255, 0)), F.Eq(in, prev)))
				}
				p.ufApps["kf"] = append(p.ufApps["kf"], in)
			}
		}
		w := 1600 / len(arr.E)
		for i := range arr.E {
			p.store(&Ptr{Obj: ptr.Obj, Path: extPath(ptr.Path, Sel{Idx: F.BVConst64(uint64(i), 64)})}, F.Extract(out, w*i+w-1, w*i))
		}
		return nil
	})

	// ----- sync/atomic as plain memory operations -----
	for _, ty := range []string{"Int32", "Int64", "Uint32", "Uint64", "Uintptr", "Pointer"} {
		r("sync/atomic.Load"+ty, func(p *Path, _ *frame, _ *ssa.Function, args []Value, _ ssa.CallInstruction) Value {
			return p.load(args[0].(*Ptr))
		})
		r("sync/atomic.Store"+ty, func(p *Path, _ *frame, _ *ssa.Function, args []Value, _ ssa.CallInstruction) Value {
			p.store(args[0].(*Ptr), args[1])
			return nil
		})
		r("sync/atomic.Add"+ty, func(p *Path, _ *frame, _ *ssa.Function, args []Value, _ ssa.CallInstruction) Value {
			v := p.F.BvAdd(p.load(args[0].(*Ptr)).(*term.T), args[1].(*term.T))
			p.store(args[0].(*Ptr), v)
			return v
		})
		r("sync/atomic.Swap"+ty, func(p *Path, _ *frame, _ *ssa.Function, args []Value, _ ssa.CallInstruction) Value {
			old := p.load(args[0].(*Ptr))
			p.store(args[0].(*Ptr), args[1])
			return old
		})
		r("sync/atomic.CompareAndSwap"+ty, func(p *Path, _ *frame, _ *ssa.Function, args []Value, _ ssa.CallInstruction) Value {
			old := p.load(args[0].(*Ptr))
			if p.fork(p.valEq(old, args[1])) {
				p.store(args[0].(*Ptr), args[2])
				return p.F.True()
			}
			return p.F.False()
		})
	}

	// ----- math/bits -----
	r("math/bits.Add64", func(p *Path, _ *frame, _ *ssa.Function, a []Value, _ ssa.CallInstruction) Value {
		F := p.F
		x, y, c := a[0].(*term.T), a[1].(*term.T), a[2].(*term.T)
		s := F.BvAdd(F.BvAdd(F.ZExt(x, 1), F.ZExt(y, 1)), F.ZExt(c, 1))
		return TupleV{F.Extract(s, 63, 0), F.ZExt(F.Extract(s, 64, 64), 63)}
	})
	r("math/bits.Sub64", func(p *Path, _ *frame, _ *ssa.Function, a []Value, _ ssa.CallInstruction) Value {
		F := p.F
		x, y, c := a[0].(*term.T), a[1].(*term.T), a[2].(*term.T)
		s := F.BvSub(F.BvSub(F.ZExt(x, 1), F.ZExt(y, 1)), F.ZExt(c, 1))
		return TupleV{F.Extract(s, 63, 0), F.ZExt(F.Extract(s, 64, 64), 63)}
	})
	r("math/bits.Mul64", func(p *Path, _ *frame, _ *ssa.Function, a []Value, _ ssa.CallInstruction) Value {
		F := p.F
		m := F.BvMul(F.ZExt(a[0].(*term.T), 64), F.ZExt(a[1].(*term.T), 64))
		return TupleV{F.Extract(m, 127, 64), F.Extract(m, 63, 0)}
	})
	r("math/bits.Div64", func(p *Path, _ *frame, _ *ssa.Function, a []Value, _ ssa.CallInstruction) Value {
		F := p.F
		hi, lo, y := a[0].(*term.T), a[1].(*term.T), a[2].(*term.T)
		if !p.forkLikely(F.Ne(y, F.BVConst64(0, 64))) {
			p.gopanic("runtime error: integer divide by zero")
		}
		if !p.forkLikely(F.BvUlt(hi, y)) {
			p.gopanic("runtime error: integer overflow")
		}
		n := F.Concat(hi, lo)
		d := F.ZExt(y, 64)
		return TupleV{F.Extract(F.BvUDiv(n, d), 63, 0), F.Extract(F.BvURem(n, d), 63, 0)}
	})
	lz := func(w int) Intrinsic {
		return func(p *Path, _ *frame, _ *ssa.Function, a []Value, _ ssa.CallInstruction) Value {
			F := p.F
			x := a[0].(*term.T)
			// leading zeros as ite chain
			res := F.BVConst64(uint64(w), 64)
			for i := 0; i < w; i++ {
				// if bit i set (from low to high), lz = w-1-i; highest set bit wins => iterate low->high
				res = F.Ite(F.Eq(F.Extract(x, i, i), F.BVConst64(1, 1)), F.BVConst64(uint64(w-1-i), 64), res)
			}
			return res
		}
	}
	r("math/bits.LeadingZeros64", lz(64))
	r("math/bits.LeadingZeros32", lz(32))
	r("math/bits.LeadingZeros16", lz(16))
	r("math/bits.LeadingZeros8", lz(8))
	r("math/bits.LeadingZeros", lz(64))
	ln := func(w int) Intrinsic {
		l := lz(w)
		return func(p *Path, fr *frame, fn *ssa.Function, a []Value, s ssa.CallInstruction) Value {
			return p.F.BvSub(p.F.BVConst64(uint64(w), 64), l(p, fr, fn, a, s).(*term.T))
		}
	}
	r("math/bits.Len64", ln(64))
	r("math/bits.Len32", ln(32))
	r("math/bits.Len16", ln(16))
	r("math/bits.Len8", ln(8))
	r("math/bits.Len", ln(64))
	tz := func(w int) Intrinsic {
		return func(p *Path, _ *frame, _ *ssa.Function, a []Value, _ ssa.CallInstruction) Value {
			F := p.F
			x := a[0].(*term.T)
			res := F.BVConst64(uint64(w), 64)
			for i := w - 1; i >= 0; i-- {
				res = F.Ite(F.Eq(F.Extract(x, i, i), F.BVConst64(1, 1)), F.BVConst64(uint64(i), 64), res)
			}
			return res
		}
	}
	r("math/bits.TrailingZeros64", tz(64))
	r("math/bits.TrailingZeros32", tz(32))
	r("math/bits.TrailingZeros16", tz(16))
	r("math/bits.TrailingZeros8", tz(8))
	r("math/bits.TrailingZeros", tz(64))
	oc := func(w int) Intrinsic {
		return func(p *Path, _ *frame, _ *ssa.Function, a []Value, _ ssa.CallInstruction) Value {
			F := p.F
			x := a[0].(*term.T)
			res := F.BVConst64(0, 64)
			for i := 0; i < w; i++ {
				res = F.BvAdd(res, F.ZExt(F.Extract(x, i, i), 63))
			}
			return res
		}
	}
	r("math/bits.OnesCount64", oc(64))
	r("math/bits.OnesCount32", oc(32))
	r("math/bits.OnesCount16", oc(16))
	r("math/bits.OnesCount8", oc(8))
	r("math/bits.OnesCount", oc(64))
	rot := func(w int) Intrinsic {
		return func(p *Path, _ *frame, _ *ssa.Function, a []Value, _ ssa.CallInstruction) Value {
			F := p.F
			x, k := a[0].(*term.T), a[1].(*term.T)
			// k is int; s = k & (w-1)
			s := F.Resize(F.BvAnd(k, F.BVConst64(uint64(w-1), 64)), w, false)
			l := F.BvShl(x, s)
			rr := F.BvLShr(x, F.BvSub(F.BVConst64(uint64(w), w), s))
			return F.Ite(F.Eq(s, F.BVConst64(0, w)), x, F.BvOr(l, rr))
		}
	}
	r("math/bits.RotateLeft64", rot(64))
	r("math/bits.RotateLeft32", rot(32))
	r("math/bits.RotateLeft16", rot(16))
	r("math/bits.RotateLeft8", rot(8))
	rev := func(w int) Intrinsic {
		return func(p *Path, _ *frame, _ *ssa.Function, a []Value, _ ssa.CallInstruction) Value {
			F := p.F
			x := a[0].(*term.T)
			res := F.Extract(x, 7, 0)
			for i := 1; i < w/8; i++ {
				res = F.Concat(res, F.Extract(x, 8*i+7, 8*i))
			}
			return res
		}
	}
	r("math/bits.ReverseBytes64", rev(64))
	r("math/bits.ReverseBytes32", rev(32))
	r("math/bits.ReverseBytes16", rev(16))

	// ----- errors / fmt / log: only what is needed, as opaque-free constructions -----
	r("fmt.Errorf", func(p *Path, _ *frame, fn *ssa.Function, a []Value, _ ssa.CallInstruction) Value {
		p.stubs["fmt.Errorf returns a fresh non-nil error (message not modelled)"] = true
		// a fresh error object with a unique identity
		et := fn.Signature.Results().At(0).Type()
		_ = et
		st := types.NewStruct([]*types.Var{types.NewField(0, nil, "s", types.Typ[types.String], false)}, nil)
		o := p.newObj(st, &StructV{F: []Value{StrV("fmt.Errorf")}}, "fmt.Errorf")
		return &IfaceV{T: p.E.errorStringPtrType(), V: &Ptr{Obj: o}}
	})
	r("fmt.Sprintf", func(p *Path, _ *frame, fn *ssa.Function, a []Value, _ ssa.CallInstruction) Value {
		p.stubs["fmt.Sprintf returns a fixed string"] = true
		return StrV("<fmt.Sprintf>")
	})
	r("fmt.Sprint", func(p *Path, _ *frame, fn *ssa.Function, a []Value, _ ssa.CallInstruction) Value {
		p.stubs["fmt.Sprint returns a fixed string"] = true
		return StrV("<fmt.Sprint>")
	})
	for _, n := range []string{"fmt.Println", "fmt.Printf", "fmt.Print", "fmt.Fprintf", "fmt.Fprintln", "fmt.Fprint"} {
		r(n, func(p *Path, _ *frame, fn *ssa.Function, a []Value, _ ssa.CallInstruction) Value {
			p.stubs[fn.String()+" (no-op)"] = true
			return TupleV{p.F.BVConst64(0, 64), &IfaceV{}}
		})
	}
	for _, n := range []string{"Trace", "Debug", "Info", "Warn", "Error"} {
		r("github.com/ethereum/go-ethereum/log."+n, func(p *Path, _ *frame, fn *ssa.Function, a []Value, _ ssa.CallInstruction) Value {
			p.stubs[fn.String()+" (no-op)"] = true
			return nil
		})
	}
	r("github.com/ethereum/go-ethereum/log.Crit", func(p *Path, _ *frame, fn *ssa.Function, a []Value, _ ssa.CallInstruction) Value {
		p.gopanic("log.Crit (os.Exit)")
		return nil
	})
}

var errStrOnce sync.Once
var errStrType types.Type

// errorStringPtrType returns *errors.errorString.
func (e *Engine) errorStringPtrType() types.Type {
	errStrOnce.Do(func() {
		if pkg := e.Prog.ImportedPackage("errors"); pkg != nil {
			if t := pkg.Type("errorString"); t != nil {
				errStrType = types.NewPointer(t.Type())
			}
		}
	})
	if errStrType == nil {
		panic(&pathEnd{"unsupported", "errors package not loaded"})
	}
	return errStrType
}

// observe records a value for translator validation.
func (p *Path) observe(label string, v Value, t types.Type) {
	switch x := v.(type) {
	case *term.T:
		kind := "u"
		if x.Sort.K == term.KBool {
			kind = "bool"
		} else if _, signed, ok := intInfo(t); ok && signed && x.Sort.W == 64 {
			kind = "i64"
		} else if ok && signed {
			// sign-extend to 64 for printing
			p.obs = append(p.obs, obsRec{Label: label, Kind: "i64", Terms: []*term.T{p.F.SExt(x, 64-x.Sort.W)}})
			return
		}
		p.obs = append(p.obs, obsRec{Label: label, Kind: kind, Terms: []*term.T{x}})
	case *SliceV:
		n := int(p.concretize(x.Len, "observe length"))
		if n > 0 && !x.Off.IsConst() {
			p.concretize(x.Off, "observe offset")
		}
		es := p.sliceElems(x, n)
		ts := make([]*term.T, 0, n)
		for _, e := range es {
			et, ok := e.(*term.T)
			if !ok || et.Sort.W != 8 {
				p.unsupported("zzObserve of non-byte slice")
			}
			ts = append(ts, et)
		}
		p.obs = append(p.obs, obsRec{Label: label, Kind: "bytes", Terms: ts})
	case StrV:
		ts := p.strTerms(x)
		p.obs = append(p.obs, obsRec{Label: label, Kind: "bytes", Terms: ts})
	case *ArrayV:
		ts := make([]*term.T, 0, len(x.E))
		for _, e := range x.E {
			et, ok := e.(*term.T)
			if !ok || et.Sort.W != 8 {
				p.unsupported("zzObserve of non-byte array")
			}
			ts = append(ts, et)
		}
		p.obs = append(p.obs, obsRec{Label: label, Kind: "bytes", Terms: ts})
	default:
		p.unsupported("zzObserve of %T", v)
	}
}

package exec

import (
	"fmt"
	"go/types"

	"gosmt/internal/term"

	"golang.org/x/tools/go/ssa"
)

// Value is one of:
//   *term.T   scalar: Bool, BV(n) for intN/uintN/uintptr
//   *Ptr      pointer (Obj == nil: nil pointer)
//   *SliceV   slice (Obj == nil: nil slice)
//   *StructV  struct value (treated as immutable once in a register)
//   *ArrayV   array value
//   *IfaceV   interface value (T == nil: nil interface)
//   *FuncV    function value / closure (nil func: Fn == nil && Builtin == nil)
//   *MapV     map reference (M == nil: nil map)
//   StrV      string with concrete contents
//   *SymStr   string with symbolic bytes and concrete length
//   TupleV    multiple results
//   *OpaqueV  value the engine cannot interpret (only identity is defined)
//   *BigV     payload of a math/big.Int object: a term of sort Int
type Value interface{}

type Obj struct {
	ID   int
	Val  Value
	Typ  types.Type // type of Val
	Name string
	Written bool
}

type Sel struct {
	Field int
	Idx   *term.T // non-nil: array element selector (BV64)
}

type Ptr struct {
	Obj  *Obj
	Path []Sel
}

type SliceV struct {
	Obj  *Obj
	Base []Sel // path to the array inside Obj
	Off  *term.T
	Len  *term.T
	Cap  *term.T
}

type StructV struct{ F []Value }
type ArrayV struct{ E []Value }

type IfaceV struct {
	T types.Type
	V Value
}

type FuncV struct {
	Fn      *ssa.Function
	Bind    []Value
	Builtin *ssa.Builtin
}

type MapEntry struct {
	K, V Value
}
type MapObj struct {
	ID      int
	Entries []*MapEntry
	KT, VT  types.Type
}
type MapV struct{ M *MapObj }

type StrV string
type SymStr struct{ B []*term.T }

type TupleV []Value

// ChanV is a buffered channel under the single-schedule model: a FIFO of the values sent
// and not yet received. Only non-blocking operations are supported.
type ChanV struct{ C *ChanObj }
type ChanObj struct {
	Cap int
	Q   []Value
}

type OpaqueV struct {
	Name string
	T    types.Type
}

type BigV struct{ T *term.T }

// iterator for Range/Next
type iterV struct {
	isMap   bool
	entries []*MapEntry
	m       *MapObj
	str     []Value // decoded (index, rune) pairs for strings
	strIdx  []int
	pos     int
}

func (p *Ptr) String() string {
	if p.Obj == nil {
		return "nilptr"
	}
	return fmt.Sprintf("&obj%d%v", p.Obj.ID, p.Path)
}

func isNilPtr(v Value) bool {
	p, ok := v.(*Ptr)
	return ok && p.Obj == nil
}

// basicInfo returns (width, signed, ok) for integer-like basic types.
func intInfo(t types.Type) (int, bool, bool) {
	b, ok := t.Underlying().(*types.Basic)
	if !ok {
		return 0, false, false
	}
	switch b.Kind() {
	case types.Int8:
		return 8, true, true
	case types.Int16:
		return 16, true, true
	case types.Int32:
		return 32, true, true
	case types.Int64, types.Int, types.UntypedInt, types.UntypedRune:
		return 64, true, true
	case types.Uint8:
		return 8, false, true
	case types.Uint16:
		return 16, false, true
	case types.Uint32:
		return 32, false, true
	case types.Uint64, types.Uint, types.Uintptr:
		return 64, false, true
	}
	return 0, false, false
}

func isString(t types.Type) bool {
	b, ok := t.Underlying().(*types.Basic)
	return ok && b.Info()&types.IsString != 0
}

func isBool(t types.Type) bool {
	b, ok := t.Underlying().(*types.Basic)
	return ok && b.Info()&types.IsBoolean != 0
}

func isFloat(t types.Type) bool {
	b, ok := t.Underlying().(*types.Basic)
	return ok && b.Info()&(types.IsFloat|types.IsComplex) != 0
}

func deref(t types.Type) types.Type {
	if p, ok := t.Underlying().(*types.Pointer); ok {
		return p.Elem()
	}
	panic(fmt.Sprintf("deref of non-pointer %v", t))
}

// copyVal copies the mutable spine (structs/arrays) of a value.
func copyVal(v Value) Value {
	switch x := v.(type) {
	case *StructV:
		n := &StructV{F: make([]Value, len(x.F))}
		for i, f := range x.F {
			n.F[i] = copyVal(f)
		}
		return n
	case *ArrayV:
		n := &ArrayV{E: make([]Value, len(x.E))}
		for i, e := range x.E {
			n.E[i] = copyVal(e)
		}
		return n
	}
	return v
}

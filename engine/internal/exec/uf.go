package exec

import (
	"fmt"
	"go/types"
	"strings"

	"gosmt/internal/term"

	"golang.org/x/tools/go/ssa"
)

func isBigIntPtr(t types.Type) bool {
	p, ok := t.Underlying().(*types.Pointer)
	if !ok {
		return false
	}
	n, ok := p.Elem().(*types.Named)
	return ok && n.Obj().Pkg() != nil && n.Obj().Pkg().Path() == "math/big" && n.Obj().Name() == "Int"
}

// flatten collects the scalar leaves of a value (bit-vectors, booleans, big integers).
func (p *Path) flatten(v Value, out *[]*term.T) {
	switch x := v.(type) {
	case *term.T:
		*out = append(*out, x)
	case *StructV:
		for _, f := range x.F {
			p.flatten(f, out)
		}
	case *ArrayV:
		for _, e := range x.E {
			p.flatten(e, out)
		}
	case *BigV:
		*out = append(*out, x.T)
	case *Ptr:
		if x.Obj == nil {
			return
		}
		p.flatten(p.loadAt(x.Obj.Val, x.Path), out)
	case *IfaceV, *SliceV, *MapV, *FuncV, StrV, *SymStr, *OpaqueV, nil:
		// not part of the function's abstract argument
	}
}

// callUF replaces a call by an uninterpreted function of the scalar leaves of its arguments.
func (p *Path) callUF(fn *ssa.Function, args []Value) Value {
	var leaves []*term.T
	for _, a := range args {
		p.flatten(a, &leaves)
	}
	name := "uf_" + strings.NewReplacer("/", "_", ".", "_", "(", "", ")", "", "*", "", "-", "_").Replace(fn.String())
	p.stubs["uninterpreted function: "+fn.String()] = true
	res := fn.Signature.Results()
	mk := func(i int, t types.Type) Value {
		n := fmt.Sprintf("%s_r%d", name, i)
		if isBigIntPtr(t) {
			return p.newBig(p.F.UF(n, term.Int, leaves...), deref(t))
		}
		if w, _, ok := intInfo(t); ok {
			return p.F.UF(n, term.BV(w), leaves...)
		}
		if isBool(t) {
			return p.F.UF(n, term.Bool, leaves...)
		}
		if at, ok := t.Underlying().(*types.Array); ok {
			if w, _, ok := intInfo(at.Elem()); ok && at.Len() <= 64 {
				arr := &ArrayV{E: make([]Value, at.Len())}
				for k := range arr.E {
					arr.E[k] = p.F.UF(fmt.Sprintf("%s_e%d", n, k), term.BV(w), leaves...)
				}
				return arr
			}
		}
		p.unsupported("uninterpreted function %s with result type %v", fn, t)
		return nil
	}
	switch res.Len() {
	case 0:
		return nil
	case 1:
		return mk(0, res.At(0).Type())
	}
	tv := make(TupleV, res.Len())
	for i := range tv {
		tv[i] = mk(i, res.At(i).Type())
	}
	return tv
}

func registerMoreHarnessAPI(e *Engine) {
	e.intr["zz:zzNondetBig"] = func(p *Path, _ *frame, fn *ssa.Function, args []Value, _ ssa.CallInstruction) Value {
		bits := args[0].(*term.T)
		if !bits.IsConst() {
			p.unsupported("zzNondetBig with symbolic width")
		}
		v := p.F.Var(fmt.Sprintf("n%d_big", len(p.nondets)), term.Int)
		p.nondets = append(p.nondets, nondetRec{Kind: "big", Terms: []*term.T{v}})
		p.assume(p.F.And(p.F.IGe(v, p.F.IntConst64(0)), p.F.ILt(v, p.F.IntConst(pow2(int(bits.Uint64()))))))
		return p.newBig(v, deref(fn.Signature.Results().At(0).Type()))
	}
	// zzBigEq(a, b *big.Int) bool: one term
	e.intr["zz:zzBigEq"] = func(p *Path, _ *frame, fn *ssa.Function, args []Value, _ ssa.CallInstruction) Value {
		return p.F.Eq(p.bigGet(args[0]), p.bigGet(args[1]))
	}
	e.intr["zz:zzBigLe"] = func(p *Path, _ *frame, fn *ssa.Function, args []Value, _ ssa.CallInstruction) Value {
		return p.F.ILe(p.bigGet(args[0]), p.bigGet(args[1]))
	}
	e.intr["zz:zzBigLt"] = func(p *Path, _ *frame, fn *ssa.Function, args []Value, _ ssa.CallInstruction) Value {
		return p.F.ILt(p.bigGet(args[0]), p.bigGet(args[1]))
	}
}

package exec

import (
	"go/types"
	"math/big"

	"gosmt/internal/term"

	"golang.org/x/tools/go/ssa"
)

// Summary of math/big.Int: the object a *big.Int points to holds one SMT term
// of sort Int (BigV). The zero value of the struct is the integer 0. The limb
// arithmetic of math/big is replaced by arithmetic over the integers.

func (p *Path) bigGet(v Value) *term.T {
	ptr, ok := v.(*Ptr)
	if !ok {
		p.unsupported("big.Int receiver is %T", v)
	}
	if ptr.Obj == nil {
		p.gopanic("runtime error: invalid memory address or nil pointer dereference (nil *big.Int)")
	}
	cur := p.loadAt(ptr.Obj.Val, ptr.Path)
	switch x := cur.(type) {
	case *BigV:
		return x.T
	case *StructV:
		// untouched zero value
		return p.F.IntConst64(0)
	case *OpaqueV:
		p.unsupported("opaque big.Int (%s)", x.Name)
	}
	p.unsupported("big.Int object holds %T", cur)
	return nil
}

func (p *Path) bigSet(v Value, t *term.T) {
	ptr := v.(*Ptr)
	if ptr.Obj == nil {
		p.gopanic("runtime error: invalid memory address or nil pointer dereference (nil *big.Int)")
	}
	ptr.Obj.Written = true
	ptr.Obj.Val = p.storeAt(ptr.Obj.Val, ptr.Path, &BigV{T: t})
}

func (p *Path) newBig(t *term.T, typ types.Type) *Ptr {
	o := p.newObj(typ, &BigV{T: t}, "big.Int")
	return &Ptr{Obj: o}
}

// bvToInt converts a bit-vector term to an Int term.
func (p *Path) bvToInt(x *term.T, signed bool) *term.T {
	F := p.F
	u := F.Bv2Nat(x)
	if !signed {
		return u
	}
	w := x.Sort.W
	neg := F.BvSlt(x, F.BVConst64(0, w))
	return F.Ite(neg, F.ISub(u, F.IntConst(new(big.Int).Lsh(big.NewInt(1), uint(w)))), u)
}

func pow2(n int) *big.Int { return new(big.Int).Lsh(big.NewInt(1), uint(n)) }

func (p *Path) intAbs(x *term.T) *term.T {
	if x.Op == term.OBv2Nat || (x.IsConst() && x.Val.Sign() >= 0) {
		return x // non-negative by construction
	}
	return p.F.Ite(p.F.ILt(x, p.F.IntConst64(0)), p.F.INeg(x), x)
}

// intToBv returns the low w bits of a non-negative Int term.
func (p *Path) intToBv(x *term.T, w int) *term.T { return p.F.Int2Bv(x, w) }

func registerBigIntrinsics(e *Engine) {
	r := func(name string, h Intrinsic) { e.intr[name] = h }
	bigT := func(fn *ssa.Function) types.Type { return deref(fn.Signature.Recv().Type()) }

	r("math/big.NewInt", func(p *Path, _ *frame, fn *ssa.Function, a []Value, _ ssa.CallInstruction) Value {
		t := deref(fn.Signature.Results().At(0).Type())
		return p.newBig(p.bvToInt(a[0].(*term.T), true), t)
	})
	r("(*math/big.Int).SetUint64", func(p *Path, _ *frame, fn *ssa.Function, a []Value, _ ssa.CallInstruction) Value {
		p.bigSet(a[0], p.bvToInt(a[1].(*term.T), false))
		return a[0]
	})
	r("(*math/big.Int).SetInt64", func(p *Path, _ *frame, fn *ssa.Function, a []Value, _ ssa.CallInstruction) Value {
		p.bigSet(a[0], p.bvToInt(a[1].(*term.T), true))
		return a[0]
	})
	r("(*math/big.Int).Set", func(p *Path, _ *frame, fn *ssa.Function, a []Value, _ ssa.CallInstruction) Value {
		p.bigSet(a[0], p.bigGet(a[1]))
		return a[0]
	})
	bin := func(f func(p *Path, x, y *term.T) *term.T) Intrinsic {
		return func(p *Path, _ *frame, fn *ssa.Function, a []Value, _ ssa.CallInstruction) Value {
			p.bigSet(a[0], f(p, p.bigGet(a[1]), p.bigGet(a[2])))
			return a[0]
		}
	}
	r("(*math/big.Int).Add", bin(func(p *Path, x, y *term.T) *term.T { return p.F.IAdd(x, y) }))
	r("(*math/big.Int).Sub", bin(func(p *Path, x, y *term.T) *term.T { return p.F.ISub(x, y) }))
	r("(*math/big.Int).Mul", bin(func(p *Path, x, y *term.T) *term.T { return p.F.IMul(x, y) }))
	divCheck := func(p *Path, y *term.T) {
		if !p.forkLikely(p.F.Ne(y, p.F.IntConst64(0))) {
			p.gopanic("division by zero")
		}
	}
	// Div/Mod: Euclidean (as SMT-LIB div/mod)
	r("(*math/big.Int).Div", bin(func(p *Path, x, y *term.T) *term.T { divCheck(p, y); return p.F.IDiv(x, y) }))
	r("(*math/big.Int).Mod", bin(func(p *Path, x, y *term.T) *term.T { divCheck(p, y); return p.F.IMod(x, y) }))
	// Quo/Rem: truncated division
	quo := func(p *Path, x, y *term.T) *term.T {
		F := p.F
		q := F.IDiv(p.intAbs(x), p.intAbs(y))
		neg := F.Not(F.Eq(F.ILt(x, F.IntConst64(0)), F.ILt(y, F.IntConst64(0))))
		return F.Ite(neg, F.INeg(q), q)
	}
	r("(*math/big.Int).Quo", bin(func(p *Path, x, y *term.T) *term.T { divCheck(p, y); return quo(p, x, y) }))
	r("(*math/big.Int).Rem", bin(func(p *Path, x, y *term.T) *term.T {
		divCheck(p, y)
		return p.F.ISub(x, p.F.IMul(y, quo(p, x, y)))
	}))
	r("(*math/big.Int).Neg", func(p *Path, _ *frame, fn *ssa.Function, a []Value, _ ssa.CallInstruction) Value {
		p.bigSet(a[0], p.F.INeg(p.bigGet(a[1])))
		return a[0]
	})
	r("(*math/big.Int).Abs", func(p *Path, _ *frame, fn *ssa.Function, a []Value, _ ssa.CallInstruction) Value {
		p.bigSet(a[0], p.intAbs(p.bigGet(a[1])))
		return a[0]
	})
	shiftAmt := func(p *Path, v Value) int {
		n := v.(*term.T)
		k := p.concretize(n, "big.Int shift amount")
		if k > 4096 {
			p.end("budget", "big.Int shift by %d", k)
		}
		return int(k)
	}
	r("(*math/big.Int).Lsh", func(p *Path, _ *frame, fn *ssa.Function, a []Value, _ ssa.CallInstruction) Value {
		p.bigSet(a[0], p.F.IMul(p.bigGet(a[1]), p.F.IntConst(pow2(shiftAmt(p, a[2])))))
		return a[0]
	})
	r("(*math/big.Int).Rsh", func(p *Path, _ *frame, fn *ssa.Function, a []Value, _ ssa.CallInstruction) Value {
		p.bigSet(a[0], p.F.IDiv(p.bigGet(a[1]), p.F.IntConst(pow2(shiftAmt(p, a[2])))))
		return a[0]
	})
	cmp := func(p *Path, x, y *term.T) *term.T {
		F := p.F
		return F.Ite(F.ILt(x, y), F.BVConstI(-1, 64), F.Ite(F.Eq(x, y), F.BVConst64(0, 64), F.BVConst64(1, 64)))
	}
	r("(*math/big.Int).Cmp", func(p *Path, _ *frame, fn *ssa.Function, a []Value, _ ssa.CallInstruction) Value {
		return cmp(p, p.bigGet(a[0]), p.bigGet(a[1]))
	})
	r("(*math/big.Int).CmpAbs", func(p *Path, _ *frame, fn *ssa.Function, a []Value, _ ssa.CallInstruction) Value {
		return cmp(p, p.intAbs(p.bigGet(a[0])), p.intAbs(p.bigGet(a[1])))
	})
	r("(*math/big.Int).Sign", func(p *Path, _ *frame, fn *ssa.Function, a []Value, _ ssa.CallInstruction) Value {
		return cmp(p, p.bigGet(a[0]), p.F.IntConst64(0))
	})
	r("(*math/big.Int).IsUint64", func(p *Path, _ *frame, fn *ssa.Function, a []Value, _ ssa.CallInstruction) Value {
		x := p.bigGet(a[0])
		return p.F.And(p.F.IGe(x, p.F.IntConst64(0)), p.F.ILt(x, p.F.IntConst(pow2(64))))
	})
	r("(*math/big.Int).IsInt64", func(p *Path, _ *frame, fn *ssa.Function, a []Value, _ ssa.CallInstruction) Value {
		x := p.bigGet(a[0])
		return p.F.And(p.F.IGe(x, p.F.IntConst(new(big.Int).Neg(pow2(63)))), p.F.ILt(x, p.F.IntConst(pow2(63))))
	})
	r("(*math/big.Int).Uint64", func(p *Path, _ *frame, fn *ssa.Function, a []Value, _ ssa.CallInstruction) Value {
		return p.intToBv(p.intAbs(p.bigGet(a[0])), 64)
	})
	r("(*math/big.Int).Int64", func(p *Path, _ *frame, fn *ssa.Function, a []Value, _ ssa.CallInstruction) Value {
		x := p.bigGet(a[0])
		lo := p.intToBv(p.intAbs(x), 64)
		return p.F.Ite(p.F.ILt(x, p.F.IntConst64(0)), p.F.BvNeg(lo), lo)
	})
	r("(*math/big.Int).BitLen", func(p *Path, _ *frame, fn *ssa.Function, a []Value, _ ssa.CallInstruction) Value {
		F := p.F
		x := p.intAbs(p.bigGet(a[0]))
		const maxBits = 520
		if !p.forkLikely(F.ILt(x, F.IntConst(pow2(maxBits)))) {
			p.end("budget", "big.Int.BitLen of a value >= 2^%d", maxBits)
		}
		res := F.BVConst64(maxBits, 64)
		for k := maxBits - 1; k >= 0; k-- {
			res = F.Ite(F.ILt(x, F.IntConst(pow2(k))), F.BVConst64(uint64(k), 64), res)
		}
		return res
	})
	r("(*math/big.Int).SetBytes", func(p *Path, _ *frame, fn *ssa.Function, a []Value, _ ssa.CallInstruction) Value {
		s := a[1].(*SliceV)
		n := int(p.concretize(s.Len, "big.Int.SetBytes length"))
		if n == 0 {
			p.bigSet(a[0], p.F.IntConst64(0))
			return a[0]
		}
		if !s.Off.IsConst() {
			p.concretize(s.Off, "big.Int.SetBytes offset")
		}
		var bv *term.T
		for _, e := range p.sliceElems(s, n) {
			if bv == nil {
				bv = e.(*term.T)
			} else {
				bv = p.F.Concat(bv, e.(*term.T))
			}
		}
		p.bigSet(a[0], p.F.Bv2Nat(bv))
		return a[0]
	})
	bytesOf := func(p *Path, x *term.T, n int, et types.Type) *SliceV {
		F := p.F
		arr := &ArrayV{E: make([]Value, n)}
		if n > 0 {
			bv := p.intToBv(x, 8*n)
			for i := 0; i < n; i++ {
				hi := 8*(n-i) - 1
				arr.E[i] = F.Extract(bv, hi, hi-7)
			}
		}
		o := p.newObj(types.NewArray(et, int64(n)), arr, "big.Int.Bytes")
		nt := F.BVConst64(uint64(n), 64)
		return &SliceV{Obj: o, Off: F.BVConst64(0, 64), Len: nt, Cap: nt}
	}
	r("(*math/big.Int).Bytes", func(p *Path, _ *frame, fn *ssa.Function, a []Value, _ ssa.CallInstruction) Value {
		F := p.F
		x := p.intAbs(p.bigGet(a[0]))
		// minimal big-endian length: case split
		const maxLen = 65
		for n := 0; n <= maxLen; n++ {
			if p.fork(F.ILt(x, F.IntConst(pow2(8*n)))) {
				return bytesOf(p, x, n, types.Typ[types.Uint8])
			}
		}
		p.end("budget", "big.Int.Bytes of a value >= 2^%d", 8*maxLen)
		return nil
	})
	r("(*math/big.Int).FillBytes", func(p *Path, _ *frame, fn *ssa.Function, a []Value, _ ssa.CallInstruction) Value {
		F := p.F
		x := p.intAbs(p.bigGet(a[0]))
		s := a[1].(*SliceV)
		n := int(p.concretize(s.Len, "big.Int.FillBytes length"))
		if !p.forkLikely(F.ILt(x, F.IntConst(pow2(8*n)))) {
			p.gopanic("math/big: buffer too small to fit value")
		}
		if n > 0 {
			if !s.Off.IsConst() {
				p.concretize(s.Off, "big.Int.FillBytes offset")
			}
			src := bytesOf(p, x, n, types.Typ[types.Uint8])
			es := p.sliceElems(src, n)
			for i := 0; i < n; i++ {
				p.store(p.sliceElemPtr(s, F.BVConst64(uint64(i), 64)), es[i])
			}
		}
		return s
	})
	r("(*math/big.Int).SetString", func(p *Path, _ *frame, fn *ssa.Function, a []Value, _ ssa.CallInstruction) Value {
		str, ok := a[1].(StrV)
		base := a[2].(*term.T)
		if !ok || !base.IsConst() {
			p.unsupported("big.Int.SetString with symbolic arguments")
		}
		v, good := new(big.Int).SetString(string(str), int(base.SignedVal().Int64()))
		if !good {
			return TupleV{&Ptr{}, p.F.False()}
		}
		p.bigSet(a[0], p.F.IntConst(v))
		return TupleV{a[0], p.F.True()}
	})
	r("(*math/big.Int).Exp", func(p *Path, _ *frame, fn *ssa.Function, a []Value, _ ssa.CallInstruction) Value {
		x, y := p.bigGet(a[1]), p.bigGet(a[2])
		var m *term.T
		if mp, ok := a[3].(*Ptr); ok && mp.Obj != nil {
			m = p.bigGet(a[3])
		}
		if !x.IsConst() || !y.IsConst() || (m != nil && !m.IsConst()) {
			p.unsupported("big.Int.Exp with symbolic arguments")
		}
		var mv *big.Int
		if m != nil {
			mv = m.Val
		}
		p.bigSet(a[0], p.F.IntConst(new(big.Int).Exp(x.Val, y.Val, mv)))
		return a[0]
	})
	for _, n := range []string{"String", "Text"} {
		r("(*math/big.Int)."+n, func(p *Path, _ *frame, fn *ssa.Function, a []Value, _ ssa.CallInstruction) Value {
			p.stubs["big.Int.String/Text returns a fixed string"] = true
			return StrV("<big.Int>")
		})
	}
	_ = bigT
}

// ---------- holiman/uint256: wide multiplication and division as 256/512-bit bit-vector operations ----------

func (p *Path) u256Get(v Value) *term.T {
	ptr := v.(*Ptr)
	if ptr.Obj == nil {
		p.gopanic("runtime error: invalid memory address or nil pointer dereference (nil *uint256.Int)")
	}
	arr, ok := p.loadAt(ptr.Obj.Val, ptr.Path).(*ArrayV)
	if !ok || len(arr.E) != 4 {
		p.unsupported("uint256.Int object has unexpected shape")
	}
	F := p.F
	// the 256-bit term these four limbs were split from, if they still are exactly that split
	key := [4]*term.T{arr.E[0].(*term.T), arr.E[1].(*term.T), arr.E[2].(*term.T), arr.E[3].(*term.T)}
	if m, ok := p.extra["u256"].(map[[4]*term.T]*term.T); ok {
		if t, ok := m[key]; ok {
			return t
		}
	}
	return F.Concat(F.Concat(key[3], key[2]), F.Concat(key[1], key[0]))
}

func (p *Path) u256Set(v Value, t *term.T) {
	ptr := v.(*Ptr)
	arr := &ArrayV{E: make([]Value, 4)}
	var key [4]*term.T
	for i := 0; i < 4; i++ {
		key[i] = p.F.Extract(t, 64*i+63, 64*i)
		arr.E[i] = key[i]
	}
	m, ok := p.extra["u256"].(map[[4]*term.T]*term.T)
	if !ok {
		m = map[[4]*term.T]*term.T{}
		p.extra["u256"] = m
	}
	m[key] = t
	p.store(ptr, arr)
}

func registerU256Intrinsics(e *Engine) {
	r := func(name string, h Intrinsic) { e.intr["(*github.com/holiman/uint256.Int)."+name] = h }
	r("Mul", func(p *Path, _ *frame, fn *ssa.Function, a []Value, _ ssa.CallInstruction) Value {
		p.stubs["uint256.Int.Mul/Div/Mod/MulOverflow/MulMod/AddMod are 256/512-bit bit-vector operations (limb code not executed)"] = true
		p.u256Set(a[0], p.F.BvMul(p.u256Get(a[1]), p.u256Get(a[2])))
		return a[0]
	})
	r("MulOverflow", func(p *Path, _ *frame, fn *ssa.Function, a []Value, _ ssa.CallInstruction) Value {
		F := p.F
		p.stubs["uint256.Int.Mul/Div/Mod/MulOverflow/MulMod/AddMod are 256/512-bit bit-vector operations (limb code not executed)"] = true
		m := F.BvMul(F.ZExt(p.u256Get(a[1]), 256), F.ZExt(p.u256Get(a[2]), 256))
		p.u256Set(a[0], F.Extract(m, 255, 0))
		return TupleV{a[0], F.Ne(F.Extract(m, 511, 256), F.BVConst64(0, 256))}
	})
	r("Div", func(p *Path, _ *frame, fn *ssa.Function, a []Value, _ ssa.CallInstruction) Value {
		F := p.F
		x, y := p.u256Get(a[1]), p.u256Get(a[2])
		z := F.BVConst64(0, 256)
		p.u256Set(a[0], F.Ite(F.Eq(y, z), z, F.BvUDiv(x, y)))
		return a[0]
	})
	r("Mod", func(p *Path, _ *frame, fn *ssa.Function, a []Value, _ ssa.CallInstruction) Value {
		F := p.F
		x, y := p.u256Get(a[1]), p.u256Get(a[2])
		z := F.BVConst64(0, 256)
		p.u256Set(a[0], F.Ite(F.Eq(y, z), z, F.BvURem(x, y)))
		return a[0]
	})
	r("AddMod", func(p *Path, _ *frame, fn *ssa.Function, a []Value, _ ssa.CallInstruction) Value {
		F := p.F
		x, y, m := F.ZExt(p.u256Get(a[1]), 1), F.ZExt(p.u256Get(a[2]), 1), F.ZExt(p.u256Get(a[3]), 1)
		z := F.BVConst64(0, 257)
		p.u256Set(a[0], F.Extract(F.Ite(F.Eq(m, z), z, F.BvURem(F.BvAdd(x, y), m)), 255, 0))
		return a[0]
	})
	r("MulMod", func(p *Path, _ *frame, fn *ssa.Function, a []Value, _ ssa.CallInstruction) Value {
		F := p.F
		x, y, m := F.ZExt(p.u256Get(a[1]), 256), F.ZExt(p.u256Get(a[2]), 256), F.ZExt(p.u256Get(a[3]), 256)
		z := F.BVConst64(0, 512)
		p.u256Set(a[0], F.Extract(F.Ite(F.Eq(m, z), z, F.BvURem(F.BvMul(x, y), m)), 255, 0))
		return a[0]
	})
	// comparisons and additive arithmetic on the whole 256-bit value (exact; avoids limb-wise borrow chains)
	note := "uint256.Int.Cmp/Lt/Gt/Eq/IsZero/Add/Sub/AddOverflow/SubOverflow are 256-bit bit-vector operations (limb code not executed)"
	r("Cmp", func(p *Path, _ *frame, fn *ssa.Function, a []Value, _ ssa.CallInstruction) Value {
		F := p.F
		p.stubs[note] = true
		x, y := p.u256Get(a[0]), p.u256Get(a[1])
		return F.Ite(F.BvUlt(x, y), F.BVConstI(-1, 64), F.Ite(F.Eq(x, y), F.BVConst64(0, 64), F.BVConst64(1, 64)))
	})
	r("Lt", func(p *Path, _ *frame, fn *ssa.Function, a []Value, _ ssa.CallInstruction) Value {
		p.stubs[note] = true
		return p.F.BvUlt(p.u256Get(a[0]), p.u256Get(a[1]))
	})
	r("Gt", func(p *Path, _ *frame, fn *ssa.Function, a []Value, _ ssa.CallInstruction) Value {
		p.stubs[note] = true
		return p.F.BvUlt(p.u256Get(a[1]), p.u256Get(a[0]))
	})
	r("Eq", func(p *Path, _ *frame, fn *ssa.Function, a []Value, _ ssa.CallInstruction) Value {
		p.stubs[note] = true
		return p.F.Eq(p.u256Get(a[0]), p.u256Get(a[1]))
	})
	r("IsZero", func(p *Path, _ *frame, fn *ssa.Function, a []Value, _ ssa.CallInstruction) Value {
		p.stubs[note] = true
		return p.F.Eq(p.u256Get(a[0]), p.F.BVConst64(0, 256))
	})
	r("Add", func(p *Path, _ *frame, fn *ssa.Function, a []Value, _ ssa.CallInstruction) Value {
		p.stubs[note] = true
		p.u256Set(a[0], p.F.BvAdd(p.u256Get(a[1]), p.u256Get(a[2])))
		return a[0]
	})
	r("Sub", func(p *Path, _ *frame, fn *ssa.Function, a []Value, _ ssa.CallInstruction) Value {
		p.stubs[note] = true
		p.u256Set(a[0], p.F.BvSub(p.u256Get(a[1]), p.u256Get(a[2])))
		return a[0]
	})
	r("AddOverflow", func(p *Path, _ *frame, fn *ssa.Function, a []Value, _ ssa.CallInstruction) Value {
		F := p.F
		p.stubs[note] = true
		x, y := p.u256Get(a[1]), p.u256Get(a[2])
		sum := F.BvAdd(x, y)
		p.u256Set(a[0], sum)
		return TupleV{a[0], F.BvUlt(sum, x)}
	})
	r("SubOverflow", func(p *Path, _ *frame, fn *ssa.Function, a []Value, _ ssa.CallInstruction) Value {
		F := p.F
		p.stubs[note] = true
		x, y := p.u256Get(a[1]), p.u256Get(a[2])
		p.u256Set(a[0], F.BvSub(x, y))
		return TupleV{a[0], F.BvUlt(x, y)}
	})
	// conversions between math/big (an SMT integer) and uint256 (four limbs)
	r("SetFromBig", func(p *Path, _ *frame, fn *ssa.Function, a []Value, _ ssa.CallInstruction) Value {
		F := p.F
		b := p.bigGet(a[1])
		if b.Op == term.OBv2Nat && b.Args[0].Sort.W <= 256 {
			// the big integer was built from a machine word: no integer arithmetic needed
			p.u256Set(a[0], F.Resize(b.Args[0], 256, false))
			return F.False()
		}
		abs := p.intAbs(b)
		low := F.Int2Bv(F.IMod(abs, F.IntConst(pow2(256))), 256)
		neg := F.ILt(b, F.IntConst64(0))
		p.u256Set(a[0], F.Ite(neg, F.BvNeg(low), low))
		return F.ILe(F.IntConst(pow2(256)), abs)
	})
	r("ToBig", func(p *Path, _ *frame, fn *ssa.Function, a []Value, _ ssa.CallInstruction) Value {
		if isNilPtr(a[0]) {
			return &Ptr{}
		}
		t := deref(fn.Signature.Results().At(0).Type())
		return p.newBig(p.F.Bv2Nat(p.u256Get(a[0])), t)
	})
}

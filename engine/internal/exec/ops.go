package exec

import (
	"go/token"
	"go/types"
	"unicode/utf8"

	"gosmt/internal/term"

	"golang.org/x/tools/go/ssa"
)

func (p *Path) binop(op token.Token, a, b Value, ta, tb types.Type, pos token.Pos) Value {
	F := p.F
	switch op {
	case token.EQL:
		return p.valEq(a, b)
	case token.NEQ:
		return F.Not(p.valEq(a, b))
	}
	// strings
	if sa, ok := a.(StrV); ok {
		switch sb := b.(type) {
		case StrV:
			switch op {
			case token.ADD:
				return sa + sb
			case token.LSS:
				return F.BoolConst(sa < sb)
			case token.LEQ:
				return F.BoolConst(sa <= sb)
			case token.GTR:
				return F.BoolConst(sa > sb)
			case token.GEQ:
				return F.BoolConst(sa >= sb)
			}
		case *SymStr:
			if op == token.ADD {
				return &SymStr{B: append(p.strTerms(sa), sb.B...)}
			}
		}
		p.unsupported("string op %v", op)
	}
	if sa, ok := a.(*SymStr); ok {
		if op == token.ADD {
			switch sb := b.(type) {
			case StrV:
				return &SymStr{B: append(append([]*term.T{}, sa.B...), p.strTerms(sb)...)}
			case *SymStr:
				return &SymStr{B: append(append([]*term.T{}, sa.B...), sb.B...)}
			}
		}
		p.unsupported("symbolic string op %v", op)
	}
	x, ok1 := a.(*term.T)
	y, ok2 := b.(*term.T)
	if !ok1 || !ok2 {
		if isFloat(ta) {
			return &OpaqueV{Name: "float-op", T: ta}
		}
		p.unsupported("binop %v on %T,%T", op, a, b)
	}
	if x.Sort.K == term.KBool {
		switch op {
		case token.AND, token.LAND:
			return F.And(x, y)
		case token.OR, token.LOR:
			return F.Or(x, y)
		}
		p.unsupported("bool op %v", op)
	}
	w, signed, _ := intInfo(ta)
	if w == 0 {
		w = x.Sort.W
	}
	switch op {
	case token.SHL, token.SHR:
		// shift count: any integer type
		wy, sy, _ := intInfo(tb)
		if wy == 0 {
			wy = y.Sort.W
		}
		if sy {
			if !p.forkLikely(F.BvSge(y, F.BVConst64(0, wy))) {
				p.gopanic("runtime error: negative shift amount")
			}
		}
		var amt *term.T
		if wy > w {
			big := F.BvUge(y, F.BVConst64(uint64(w), wy))
			amt = F.Ite(big, F.BVConst64(uint64(w), w), F.Extract(y, w-1, 0))
		} else {
			amt = F.ZExt(y, w-wy)
		}
		if op == token.SHL {
			return F.BvShl(x, amt)
		}
		if signed {
			return F.BvAShr(x, amt)
		}
		return F.BvLShr(x, amt)
	}
	if x.Sort != y.Sort {
		p.unsupported("binop %v on mismatched sorts %v %v", op, x.Sort, y.Sort)
	}
	switch op {
	case token.ADD:
		return F.BvAdd(x, y)
	case token.SUB:
		return F.BvSub(x, y)
	case token.MUL:
		return F.BvMul(x, y)
	case token.QUO, token.REM:
		if !p.forkLikely(F.Ne(y, F.BVConst64(0, w))) {
			p.gopanic("runtime error: integer divide by zero")
		}
		switch {
		case op == token.QUO && signed:
			return F.BvSDiv(x, y)
		case op == token.QUO:
			return F.BvUDiv(x, y)
		case signed:
			return F.BvSRem(x, y)
		}
		return F.BvURem(x, y)
	case token.AND:
		return F.BvAnd(x, y)
	case token.OR:
		return F.BvOr(x, y)
	case token.XOR:
		return F.BvXor(x, y)
	case token.AND_NOT:
		return F.BvAnd(x, F.BvNot(y))
	case token.LSS:
		if signed {
			return F.BvSlt(x, y)
		}
		return F.BvUlt(x, y)
	case token.LEQ:
		if signed {
			return F.BvSle(x, y)
		}
		return F.BvUle(x, y)
	case token.GTR:
		if signed {
			return F.BvSgt(x, y)
		}
		return F.BvUgt(x, y)
	case token.GEQ:
		if signed {
			return F.BvSge(x, y)
		}
		return F.BvUge(x, y)
	}
	p.unsupported("binop %v", op)
	return nil
}

func (p *Path) strTerms(s StrV) []*term.T {
	out := make([]*term.T, len(s))
	for i := range out {
		out[i] = p.F.BVConst64(uint64(s[i]), 8)
	}
	return out
}

func (p *Path) convert(v Value, from, to types.Type) Value {
	F := p.F
	fu, tu := from.Underlying(), to.Underlying()
	if wt, _, ok := intInfo(to); ok {
		if _, sf, ok := intInfo(from); ok {
			return F.Resize(v.(*term.T), wt, sf)
		}
		if isFloat(from) {
			p.unsupported("float to int conversion")
		}
		if b, ok := fu.(*types.Basic); ok && b.Kind() == types.UnsafePointer {
			p.unsupported("unsafe.Pointer to uintptr")
		}
	}
	if isFloat(to) {
		return &OpaqueV{Name: "float-conv", T: to}
	}
	if isString(to) {
		if isString(from) {
			return v
		}
		if _, _, ok := intInfo(from); ok {
			t := v.(*term.T)
			if t.IsConst() {
				return StrV(string(rune(t.SignedVal().Int64())))
			}
			p.unsupported("symbolic rune to string")
		}
		if sl, ok := v.(*SliceV); ok { // []byte / []rune -> string
			n := int(p.concretize(sl.Len, "string(bytes) length"))
			if es, ok := fu.(*types.Slice); ok {
				if w, _, _ := intInfo(es.Elem()); w != 8 {
					p.unsupported("[]rune to string")
				}
			}
			if n == 0 {
				return StrV("")
			}
			if !sl.Off.IsConst() {
				p.concretize(sl.Off, "string(bytes) offset")
			}
			elems := p.sliceElems(sl, n)
			allc := true
			ts := make([]*term.T, n)
			for i, e := range elems {
				ts[i] = e.(*term.T)
				if !ts[i].IsConst() {
					allc = false
				}
			}
			if allc {
				bs := make([]byte, n)
				for i := range bs {
					bs[i] = byte(ts[i].Uint64())
				}
				return StrV(bs)
			}
			return &SymStr{B: ts}
		}
	}
	if ts, ok := tu.(*types.Slice); ok {
		if isString(from) { // string -> []byte
			if w, _, _ := intInfo(ts.Elem()); w != 8 {
				p.unsupported("string to []rune")
			}
			var bs []*term.T
			switch s := v.(type) {
			case StrV:
				bs = p.strTerms(s)
			case *SymStr:
				bs = s.B
			}
			arr := &ArrayV{E: make([]Value, len(bs))}
			for i := range bs {
				arr.E[i] = bs[i]
			}
			o := p.newObj(types.NewArray(ts.Elem(), int64(len(bs))), arr, "string-bytes")
			n := F.BVConst64(uint64(len(bs)), 64)
			return &SliceV{Obj: o, Off: F.BVConst64(0, 64), Len: n, Cap: n}
		}
		return v
	}
	switch tu.(type) {
	case *types.Pointer:
		return v
	case *types.Basic:
		if tu.(*types.Basic).Kind() == types.UnsafePointer {
			return v
		}
	}
	if types.Identical(fu, tu) {
		return v
	}
	p.unsupported("conversion %v -> %v", from, to)
	return nil
}

// ---------- builtins ----------

func (p *Path) callBuiltin(b *ssa.Builtin, args []Value, caller *frame, site ssa.CallInstruction) Value {
	F := p.F
	switch b.Name() {
	case "len":
		switch x := args[0].(type) {
		case *SliceV:
			return x.Len
		case StrV:
			return F.BVConst64(uint64(len(x)), 64)
		case *SymStr:
			return F.BVConst64(uint64(len(x.B)), 64)
		case *MapV:
			if x.M == nil {
				return F.BVConst64(0, 64)
			}
			return p.mapLen(x.M)
		case *ArrayV:
			return F.BVConst64(uint64(len(x.E)), 64)
		case *Ptr:
			// pointer to array
			if site != nil {
				t := site.Common().Args[0].Type()
				return F.BVConst64(uint64(deref(t).Underlying().(*types.Array).Len()), 64)
			}
		case *OpaqueV:
			p.unsupported("len of opaque %s", x.Name)
		}
	case "cap":
		switch x := args[0].(type) {
		case *SliceV:
			return x.Cap
		case *ArrayV:
			return F.BVConst64(uint64(len(x.E)), 64)
		case *Ptr:
			if site != nil {
				t := site.Common().Args[0].Type()
				return F.BVConst64(uint64(deref(t).Underlying().(*types.Array).Len()), 64)
			}
		}
	case "append":
		return p.doAppend(args[0].(*SliceV), args[1], site)
	case "copy":
		return p.doCopy(args[0].(*SliceV), args[1])
	case "panic":
		panic(&goPanic{val: args[0], msg: "panic", pos: p.where()})
	case "recover":
		// the function calling recover() is the deferred function `caller`;
		// the panicking frame is caller.caller
		if caller != nil && caller.caller != nil && caller.caller.panicking {
			fr := caller.caller
			fr.panicking = false
			return fr.panicVal.val
		}
		return &IfaceV{}
	case "delete":
		p.mapDelete(args[0], args[1])
		return nil
	case "min", "max":
		t := site.Common().Args[0].Type()
		_, signed, ok := intInfo(t)
		if !ok {
			p.unsupported("min/max on %v", t)
		}
		r := args[0].(*term.T)
		for _, a := range args[1:] {
			y := a.(*term.T)
			var lt *term.T
			if signed {
				lt = F.BvSlt(y, r)
			} else {
				lt = F.BvUlt(y, r)
			}
			if b.Name() == "max" {
				r = F.Ite(lt, r, y)
			} else {
				r = F.Ite(lt, y, r)
			}
		}
		return r
	case "clear":
		switch x := args[0].(type) {
		case *SliceV:
			n := int(p.concretize(x.Len, "clear length"))
			if n > 0 {
				if !x.Off.IsConst() {
					p.concretize(x.Off, "clear offset")
				}
				et := site.Common().Args[0].Type().Underlying().(*types.Slice).Elem()
				for i := 0; i < n; i++ {
					p.store(p.sliceElemPtr(x, F.BVConst64(uint64(i), 64)), p.zero(et))
				}
			}
			return nil
		case *MapV:
			if x.M != nil {
				x.M.Entries = nil
			}
			return nil
		}
	case "print", "println":
		return nil
	case "ssa:wrapnilchk":
		if isNilPtr(args[0]) {
			p.gopanic("runtime error: value method called using nil pointer")
		}
		return args[0]
	}
	p.unsupported("builtin %s on %T", b.Name(), args[0])
	return nil
}

func (p *Path) doAppend(s *SliceV, more Value, site ssa.CallInstruction) Value {
	F := p.F
	var add []Value
	switch m := more.(type) {
	case *SliceV:
		n := int(p.concretize(m.Len, "append arg length"))
		if n > 0 && !m.Off.IsConst() {
			p.concretize(m.Off, "append arg offset")
		}
		add = p.sliceElems(m, n)
	case StrV:
		for _, t := range p.strTerms(m) {
			add = append(add, t)
		}
	case *SymStr:
		for _, t := range m.B {
			add = append(add, t)
		}
	default:
		p.unsupported("append of %T", more)
	}
	if len(add) == 0 {
		return s
	}
	ls := p.concretize(s.Len, "append dst length")
	need := ls + uint64(len(add))
	if s.Obj != nil {
		// in place if capacity allows
		if p.fork(F.BvUge(s.Cap, F.BVConst64(need, 64))) {
			for i, e := range add {
				p.store(p.sliceElemPtr(s, F.BVConst64(ls+uint64(i), 64)), e)
			}
			return &SliceV{Obj: s.Obj, Base: s.Base, Off: s.Off, Len: F.BVConst64(need, 64), Cap: s.Cap}
		}
	}
	oldCap := uint64(0)
	if s.Obj != nil {
		oldCap = p.concretize(s.Cap, "append dst cap")
	}
	newCap := need
	if need <= 2*oldCap {
		if oldCap < 256 {
			newCap = 2 * oldCap
		} else {
			newCap = oldCap + (oldCap+3*256)/4
			for newCap < need {
				newCap += (newCap + 3*256) / 4
			}
		}
	}
	if newCap > uint64(p.H.MaxAlloc) {
		p.end("budget", "append grows beyond the harness allocation bound %d", p.H.MaxAlloc)
	}
	var et types.Type
	if site != nil {
		et = site.Common().Args[0].Type().Underlying().(*types.Slice).Elem()
	} else {
		p.unsupported("append without site")
	}
	arr := &ArrayV{E: make([]Value, newCap)}
	var old []Value
	if ls > 0 {
		if !s.Off.IsConst() {
			p.concretize(s.Off, "append dst offset")
		}
		old = p.sliceElems(s, int(ls))
	}
	for i := range arr.E {
		switch {
		case uint64(i) < ls:
			arr.E[i] = old[i]
		case uint64(i) < need:
			arr.E[i] = copyVal(add[uint64(i)-ls])
		default:
			arr.E[i] = p.zero(et)
		}
	}
	o := p.newObj(types.NewArray(et, int64(newCap)), arr, "append")
	return &SliceV{Obj: o, Off: F.BVConst64(0, 64), Len: F.BVConst64(need, 64), Cap: F.BVConst64(newCap, 64)}
}

func (p *Path) doCopy(dst *SliceV, src Value) Value {
	F := p.F
	var srcLen *term.T
	switch s := src.(type) {
	case *SliceV:
		srcLen = s.Len
	case StrV:
		srcLen = F.BVConst64(uint64(len(s)), 64)
	case *SymStr:
		srcLen = F.BVConst64(uint64(len(s.B)), 64)
	default:
		p.unsupported("copy from %T", src)
	}
	nT := F.Ite(F.BvUlt(srcLen, dst.Len), srcLen, dst.Len)
	n := int(p.concretize(nT, "copy length"))
	if n == 0 {
		return F.BVConst64(0, 64)
	}
	var elems []Value
	switch s := src.(type) {
	case *SliceV:
		if !s.Off.IsConst() {
			p.concretize(s.Off, "copy src offset")
		}
		elems = p.sliceElems(s, n)
	case StrV:
		for _, t := range p.strTerms(s[:n]) {
			elems = append(elems, t)
		}
	case *SymStr:
		for _, t := range s.B[:n] {
			elems = append(elems, t)
		}
	}
	if !dst.Off.IsConst() {
		p.concretize(dst.Off, "copy dst offset")
	}
	for i := 0; i < n; i++ {
		p.store(p.sliceElemPtr(dst, F.BVConst64(uint64(i), 64)), elems[i])
	}
	return F.BVConst64(uint64(n), 64)
}

// ---------- maps ----------

func (p *Path) mapLen(m *MapObj) *term.T {
	return p.F.BVConst64(uint64(len(m.Entries)), 64)
}

// mapFind returns the index of key or -1, forking on symbolic key equality.
func (p *Path) mapFind(m *MapObj, k Value) int {
	for i, e := range m.Entries {
		if p.fork(p.valEq(e.K, k)) {
			return i
		}
	}
	return -1
}

func (p *Path) checkMapKey(k Value) Value {
	switch x := k.(type) {
	case *OpaqueV:
		p.unsupported("opaque map key %s", x.Name)
	case *IfaceV:
		if x.T != nil {
			p.checkMapKey(x.V)
		}
	}
	return k
}

func (p *Path) lookup(m Value, k Value, x *ssa.Lookup) Value {
	switch mm := m.(type) {
	case *MapV:
		vt := x.X.Type().Underlying().(*types.Map).Elem()
		idx := -1
		if mm.M != nil {
			p.checkMapKey(k)
			idx = p.mapFind(mm.M, k)
		}
		var v Value
		if idx >= 0 {
			v = copyVal(mm.M.Entries[idx].V)
		} else {
			v = p.zero(vt)
		}
		if x.CommaOk {
			return TupleV{v, p.F.BoolConst(idx >= 0)}
		}
		return v
	case StrV, *SymStr:
		p.unsupported("string index via Lookup")
	case *OpaqueV:
		p.unsupported("lookup in opaque %s", mm.Name)
	}
	p.unsupported("lookup on %T", m)
	return nil
}

func (p *Path) mapUpdate(m Value, k, v Value) {
	mm, ok := m.(*MapV)
	if !ok {
		p.unsupported("map update on %T", m)
	}
	if mm.M == nil {
		p.gopanic("assignment to entry in nil map")
	}
	p.checkMapKey(k)
	idx := p.mapFind(mm.M, k)
	if idx >= 0 {
		mm.M.Entries[idx].V = copyVal(v)
		return
	}
	mm.M.Entries = append(mm.M.Entries, &MapEntry{K: k, V: copyVal(v)})
}

func (p *Path) mapDelete(m Value, k Value) {
	mm, ok := m.(*MapV)
	if !ok {
		p.unsupported("delete on %T", m)
	}
	if mm.M == nil {
		return
	}
	p.checkMapKey(k)
	idx := p.mapFind(mm.M, k)
	if idx >= 0 {
		mm.M.Entries = append(append([]*MapEntry{}, mm.M.Entries[:idx]...), mm.M.Entries[idx+1:]...)
	}
}

func (p *Path) rangeIter(x Value, t types.Type) Value {
	switch v := x.(type) {
	case *MapV:
		it := &iterV{isMap: true, m: v.M}
		if v.M != nil {
			it.entries = append(it.entries, v.M.Entries...)
			if perm := p.H.mapPerm; perm != nil {
				it.entries = perm(p, it.entries)
			}
		}
		return it
	case StrV:
		it := &iterV{}
		s := string(v)
		for i, r := range s {
			it.strIdx = append(it.strIdx, i)
			it.str = append(it.str, p.F.BVConst64(uint64(r), 32))
		}
		return it
	case *SymStr:
		// only valid if all bytes are ASCII on this path: check and fork
		it := &iterV{}
		for i, b := range v.B {
			if !p.forkLikely(p.F.BvUlt(b, p.F.BVConst64(utf8.RuneSelf, 8))) {
				p.unsupported("range over symbolic non-ASCII string")
			}
			it.strIdx = append(it.strIdx, i)
			it.str = append(it.str, p.F.ZExt(b, 24))
		}
		return it
	}
	p.unsupported("range over %T", x)
	return nil
}

func (p *Path) next(it *iterV, x *ssa.Next) Value {
	F := p.F
	if it.isMap {
		for it.pos < len(it.entries) {
			live := false
			for _, e := range it.m.Entries {
				if e == it.entries[it.pos] {
					live = true
				}
			}
			if live {
				break
			}
			it.pos++
		}
		if it.pos >= len(it.entries) {
			tt := x.Type().(*types.Tuple)
			return TupleV{F.False(), p.zero(tt.At(1).Type()), p.zero(tt.At(2).Type())}
		}
		e := it.entries[it.pos]
		it.pos++
		return TupleV{F.True(), e.K, copyVal(e.V)}
	}
	if it.pos >= len(it.str) {
		return TupleV{F.False(), F.BVConst64(0, 64), F.BVConst64(0, 32)}
	}
	i := it.pos
	it.pos++
	return TupleV{F.True(), F.BVConst64(uint64(it.strIdx[i]), 64), it.str[i]}
}

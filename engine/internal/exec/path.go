package exec

import (
	"fmt"
	"go/token"
	"go/types"
	"math/big"
	"os"
	"runtime"
	"sort"
	"strconv"
	"strings"
	"time"

	"gosmt/internal/smt"
	"gosmt/internal/term"

	"golang.org/x/tools/go/ssa"
)

// pathEnd is panicked (Go-level) to terminate the exploration of a path.
type pathEnd struct {
	kind string // done | infeasible | unsupported | violation | budget | unknown
	msg  string
}

// goPanic models a Go-level panic of the interpreted program.
type goPanic struct {
	val Value
	msg string
	pos string
}

type Decision struct {
	Taken  bool
	HasVal bool
	Val    uint64
	Forced bool // the other side was infeasible: implied by the path condition
}

type nondetRec struct {
	Kind  string    // u8,u16,u32,u64,i64,int,bool,bytes,u256,big,choice
	Terms []*term.T // scalar: 1 term; bytes: len term followed by byte terms
	Max   int
}

type obsRec struct {
	Label string
	Terms []*term.T
	Kind  string
}

// Violation describes a counterexample candidate.
type Violation struct {
	Harness string
	Kind    string // assert | panic
	Label   string
	Pos     string
	Inputs  []ReplayInput
	Alt     [][]ReplayInput // further models of the same path (paths depending on uninterpreted functions)
	Trace   []Decision
}

type ReplayInput struct {
	Kind  string   `json:"kind"`
	Val   string   `json:"val,omitempty"`   // decimal / "true"/"false"
	Bytes string   `json:"bytes,omitempty"` // hex
	Words []string `json:"words,omitempty"`
}

type Path struct {
	E *Engine
	H *HarnessSpec
	F *term.Factory
	S *smt.Solver
	W *worker

	pc       []*term.T
	trace    []Decision
	pos      int
	newTrace []Decision

	globals  map[*ssa.Global]*Obj
	initDone map[*ssa.Package]bool
	initAborted map[*ssa.Package]string
	nextObj  int
	nondets  []nondetRec
	obs      []obsRec
	steps    int
	reach    map[string]bool
	tainted  bool
	depth    int
	inInit   int
	forks    int
	nchoice  int
	lastPos  token.Pos
	curFn    *ssa.Function

	isTemplate   bool
	cloneMemo    map[*Obj]*Obj
	cloneMapMemo map[*MapObj]*MapObj
	pools    map[*Obj][]Value
	funcs    map[*ssa.Function]bool
	stubs    map[string]bool
	ufApps   map[string][]*term.T
	pending  [][]Decision // alternative traces discovered on this path
	decided  map[*term.T]bool
	extra    map[string]interface{}
}

type frame struct {
	p         *Path
	fn        *ssa.Function
	caller    *frame
	env       map[ssa.Value]Value
	block     *ssa.BasicBlock
	prev      *ssa.BasicBlock
	defers    []deferred
	result    Value
	panicking bool
	panicVal  *goPanic
}

type deferred struct {
	fn   Value
	args []Value
	site ssa.CallInstruction
}

func (p *Path) end(kind, format string, a ...interface{}) {
	panic(&pathEnd{kind, fmt.Sprintf(format, a...)})
}

func (p *Path) unsupported(format string, a ...interface{}) {
	panic(&pathEnd{"unsupported", fmt.Sprintf(format, a...) + " at " + p.where()})
}

func (p *Path) gopanic(msg string) {
	panic(&goPanic{val: &IfaceV{T: types.Typ[types.String], V: StrV(msg)}, msg: msg, pos: p.where()})
}

// where describes the source position of the instruction being executed.
func (p *Path) where() string {
	if p.curFn == nil {
		return ""
	}
	return p.curFn.String() + " " + posStr(p.E.Fset, p.lastPos)
}

// ---------- path condition & forking ----------

func (p *Path) addPC(c *term.T) {
	if c.IsTrue() {
		return
	}
	p.pc = append(p.pc, c)
	p.note(c)
	p.S.Assert(p.F, c)
}

func (p *Path) resync() {
	// restart a dead solver and re-assert the PC
	p.S.Reset()
	for _, c := range p.pc {
		p.S.Assert(p.F, c)
	}
}

func (p *Path) check(extra *term.T, want []*term.T) (smt.Result, []*big.Int) {
	if slowLogMs > 0 {
		t0 := time.Now()
		defer func() {
			if d := time.Since(t0); d > time.Duration(slowLogMs)*time.Millisecond {
				fmt.Fprintf(os.Stderr, "slow query %.1fs at %s (pc=%d)\n", d.Seconds(), p.where(), len(p.pc))
			}
		}()
	}
	return p.check1(extra, want)
}

var slowLogMs, _ = strconv.Atoi(os.Getenv("GOSMT_SLOW"))

func (p *Path) check1(extra *term.T, want []*term.T) (smt.Result, []*big.Int) {
	// portfolio: primary (bit-vector) solver with a short limit, then the
	// integer-encoding back end, then the primary with the long limit.
	p.S.SetTimeout(p.H.FastMs)
	r, v := p.S.Check(p.F, extra, want)
	if p.S.Dead() {
		p.resync()
	}
	if r != smt.Unknown {
		return r, v
	}
	// race the integer-encoding back end against the primary with the long limit
	p.S.SetTimeout(p.H.SolverMs)
	a := p.W.alt()
	if a == nil {
		r, v = p.S.Check(p.F, extra, want)
		if p.S.Dead() {
			p.resync()
		}
		return r, v
	}
	type ans struct {
		r smt.Result
		v []*big.Int
	}
	altRun := a.PrepareFresh(p.F, p.pc, extra, want)
	priRun := p.S.Prepare(p.F, extra, want)
	altCh, priCh := make(chan ans, 1), make(chan ans, 1)
	go func() { r, v := altRun(); altCh <- ans{r, v} }()
	go func() { r, v := priRun(); priCh <- ans{r, v} }()
	var out ans
	select {
	case out = <-priCh:
		if out.r != smt.Unknown {
			a.Interrupt()
			<-altCh
		} else if o2 := <-altCh; o2.r != smt.Unknown {
			out = o2
			p.W.altWins++
		}
	case out = <-altCh:
		if out.r != smt.Unknown {
			p.W.altWins++
			p.S.Interrupt()
			<-priCh
		} else {
			out = <-priCh
		}
	}
	if a.Dead() {
		a.Reset()
	}
	if p.S.Dead() {
		p.resync()
	}
	return out.r, out.v
}

// fork decides a boolean condition, exploring both sides where feasible.
func (p *Path) fork(c *term.T) bool { return p.forkHint(c, false) }

// forkLikely is fork for conditions expected to hold (assertions, run-time
// checks): the failing side is tested first, so a passing check costs one query.
func (p *Path) forkLikely(c *term.T) bool { return p.forkHint(c, true) }

func (p *Path) forkHint(c *term.T, likely bool) bool {
	if c.IsTrue() {
		return true
	}
	if c.IsFalse() {
		return false
	}
	// facts already on the path condition (or their negations) need no query;
	// the cache depends only on the decisions taken, so replays stay aligned
	if v, ok := p.decided[c]; ok {
		return v
	}
	nc := p.F.Not(c)
	if p.pos < len(p.trace) {
		d := p.trace[p.pos]
		p.pos++
		p.newTrace = append(p.newTrace, d)
		if d.Taken {
			p.addPC(c)
		} else {
			p.addPC(nc)
		}
		return d.Taken
	}
	p.forks++
	if p.forks > p.H.MaxDepth {
		p.end("budget", "more than %d symbolic decisions on one path (unwinding bound)", p.H.MaxDepth)
	}
	// every queried decision is recorded (also one-sided ones) so that a
	// replayed prefix lines up with the decisions met on re-execution
	var rt, rf smt.Result
	if likely {
		rf, _ = p.check(nc, nil)
		if rf == smt.Unsat {
			p.newTrace = append(p.newTrace, Decision{Taken: true, Forced: true})
			p.addPC(c) // implied, but a useful lemma for later queries
			return true
		}
		rt, _ = p.check(c, nil)
		if rt == smt.Unsat {
			p.newTrace = append(p.newTrace, Decision{Taken: false, Forced: true})
			p.addPC(nc)
			return false
		}
	} else {
		rt, _ = p.check(c, nil)
		if rt == smt.Unsat {
			p.newTrace = append(p.newTrace, Decision{Taken: false, Forced: true})
			p.addPC(nc)
			return false
		}
		rf, _ = p.check(nc, nil)
		if rf == smt.Unsat {
			p.newTrace = append(p.newTrace, Decision{Taken: true, Forced: true})
			p.addPC(c)
			return true
		}
	}
	if rt == smt.Unknown || rf == smt.Unknown {
		p.tainted = true
	}
	alt := append(append([]Decision{}, p.newTrace...), Decision{Taken: false})
	p.pending = append(p.pending, alt)
	p.newTrace = append(p.newTrace, Decision{Taken: true})
	p.addPC(c)
	return true
}

// note records that c holds on this path (and its conjuncts).
func (p *Path) note(c *term.T) {
	if _, ok := p.decided[c]; ok {
		return
	}
	p.decided[c] = true
	p.decided[p.F.Not(c)] = false
	if c.Op == term.OAnd {
		p.note(c.Args[0])
		p.note(c.Args[1])
	}
	if c.Op == term.ONot && c.Args[0].Op == term.OOr {
		p.note(p.F.Not(c.Args[0].Args[0]))
		p.note(p.F.Not(c.Args[0].Args[1]))
	}
}

// assume adds c to the path condition, ending the path if infeasible.
func (p *Path) assume(c *term.T) {
	if c.IsTrue() {
		return
	}
	if c.IsFalse() {
		p.end("infeasible", "assume false")
	}
	if p.pos < len(p.trace) {
		// replaying a prefix: feasibility was established before
		p.addPC(c)
		return
	}
	r, _ := p.check(c, nil)
	if r == smt.Unsat {
		p.end("infeasible", "assumption unsatisfiable")
	}
	if r == smt.Unknown {
		p.tainted = true
	}
	p.addPC(c)
}

const concretizeLimit = 700

// concretize forks over the feasible values of a BV term.
func (p *Path) concretize(t *term.T, why string) uint64 {
	if t.IsConst() {
		return t.Uint64()
	}
	n := 0
	for {
		n++
		if n > concretizeLimit {
			p.end("budget", "concretize(%s): more than %d values", why, concretizeLimit)
		}
		if p.pos < len(p.trace) {
			d := p.trace[p.pos]
			p.pos++
			p.newTrace = append(p.newTrace, d)
			eq := p.F.Eq(t, p.F.BVConst64(d.Val, t.Sort.W))
			if d.Taken {
				p.addPC(eq)
				return d.Val
			}
			p.addPC(p.F.Not(eq))
			continue
		}
		p.forks++
		if p.forks > p.H.MaxDepth {
			p.end("budget", "more than %d symbolic decisions on one path (unwinding bound)", p.H.MaxDepth)
		}
		r, vals := p.check(nil, []*term.T{t})
		if r != smt.Sat {
			if r == smt.Unsat {
				p.end("infeasible", "pc infeasible in concretize")
			}
			p.end("unknown", "solver unknown in concretize(%s)", why)
		}
		v := vals[0].Uint64()
		eq := p.F.Eq(t, p.F.BVConst64(v, t.Sort.W))
		rn, _ := p.check(p.F.Not(eq), nil)
		if rn != smt.Unsat {
			if rn == smt.Unknown {
				p.tainted = true
			}
			alt := append(append([]Decision{}, p.newTrace...), Decision{Taken: false, HasVal: true, Val: v})
			p.pending = append(p.pending, alt)
		}
		p.newTrace = append(p.newTrace, Decision{Taken: true, HasVal: true, Val: v})
		p.addPC(eq)
		return v
	}
}

// ---------- nondeterministic inputs ----------

func (p *Path) fresh(kind string, s term.Sort) *term.T {
	name := fmt.Sprintf("n%d_%s", len(p.nondets), kind)
	return p.F.Var(name, s)
}

func (p *Path) nondetScalar(kind string, w int) *term.T {
	var v *term.T
	if kind == "bool" {
		v = p.fresh(kind, term.Bool)
	} else {
		v = p.fresh(kind, term.BV(w))
	}
	p.nondets = append(p.nondets, nondetRec{Kind: kind, Terms: []*term.T{v}})
	return v
}

// ---------- objects ----------

func (p *Path) newObj(t types.Type, v Value, name string) *Obj {
	p.nextObj++
	return &Obj{ID: p.nextObj, Val: v, Typ: t, Name: name}
}

func (p *Path) zero(t types.Type) Value {
	switch u := t.Underlying().(type) {
	case *types.Basic:
		switch {
		case u.Info()&types.IsBoolean != 0:
			return p.F.False()
		case u.Info()&types.IsString != 0:
			return StrV("")
		case u.Kind() == types.UnsafePointer:
			return &Ptr{}
		case u.Info()&types.IsInteger != 0:
			w, _, _ := intInfo(t)
			return p.F.BVConst64(0, w)
		case u.Info()&(types.IsFloat|types.IsComplex) != 0:
			return &OpaqueV{Name: "float0", T: t}
		case u.Kind() == types.UntypedNil:
			return &Ptr{}
		case u.Kind() == types.Invalid:
			return nil // unused component of a range tuple (blank key or value)
		}
	case *types.Pointer:
		return &Ptr{}
	case *types.Slice:
		z := p.F.BVConst64(0, 64)
		return &SliceV{Off: z, Len: z, Cap: z}
	case *types.Struct:
		s := &StructV{F: make([]Value, u.NumFields())}
		for i := range s.F {
			s.F[i] = p.zero(u.Field(i).Type())
		}
		return s
	case *types.Array:
		n := int(u.Len())
		a := &ArrayV{E: make([]Value, n)}
		if n > 0 {
			z := p.zero(u.Elem())
			a.E[0] = z
			_, scalar := z.(*term.T)
			for i := 1; i < n; i++ {
				if scalar {
					a.E[i] = z
				} else {
					a.E[i] = p.zero(u.Elem())
				}
			}
		}
		return a
	case *types.Interface:
		return &IfaceV{}
	case *types.Signature:
		return &FuncV{}
	case *types.Map:
		return &MapV{}
	case *types.Chan:
		return &OpaqueV{Name: "nilchan", T: t}
	case *types.Tuple:
		tv := make(TupleV, u.Len())
		for i := range tv {
			tv[i] = p.zero(u.At(i).Type())
		}
		return tv
	}
	p.unsupported("zero value of %v", t)
	return nil
}

// ---------- memory ----------

func (p *Path) idxConst(t *term.T) (int, bool) {
	if t.IsConst() {
		return int(t.Uint64()), true
	}
	return 0, false
}

// merge builds ite(c, a, b) over values; ok=false when not mergeable.
func (p *Path) merge(c *term.T, a, b Value) (Value, bool) {
	if c.IsTrue() {
		return a, true
	}
	if c.IsFalse() {
		return b, true
	}
	switch x := a.(type) {
	case *term.T:
		y, ok := b.(*term.T)
		if !ok || x.Sort != y.Sort {
			return nil, false
		}
		return p.F.Ite(c, x, y), true
	case *StructV:
		y, ok := b.(*StructV)
		if !ok || len(x.F) != len(y.F) {
			return nil, false
		}
		n := &StructV{F: make([]Value, len(x.F))}
		for i := range x.F {
			m, ok := p.merge(c, x.F[i], y.F[i])
			if !ok {
				return nil, false
			}
			n.F[i] = m
		}
		return n, true
	case *ArrayV:
		y, ok := b.(*ArrayV)
		if !ok || len(x.E) != len(y.E) {
			return nil, false
		}
		n := &ArrayV{E: make([]Value, len(x.E))}
		for i := range x.E {
			m, ok := p.merge(c, x.E[i], y.E[i])
			if !ok {
				return nil, false
			}
			n.E[i] = m
		}
		return n, true
	case *Ptr:
		y, ok := b.(*Ptr)
		if ok && samePtr(x, y) {
			return a, true
		}
		return nil, false
	case *SliceV:
		y, ok := b.(*SliceV)
		if ok && x.Obj == y.Obj && samePath(x.Base, y.Base) {
			return &SliceV{Obj: x.Obj, Base: x.Base, Off: p.F.Ite(c, x.Off, y.Off), Len: p.F.Ite(c, x.Len, y.Len), Cap: p.F.Ite(c, x.Cap, y.Cap)}, true
		}
		return nil, false
	case StrV:
		if y, ok := b.(StrV); ok && x == y {
			return a, true
		}
		return nil, false
	case *IfaceV:
		y, ok := b.(*IfaceV)
		if !ok {
			return nil, false
		}
		if x.T == nil && y.T == nil {
			return a, true
		}
		if x.T != nil && y.T != nil && types.Identical(x.T, y.T) {
			m, ok := p.merge(c, x.V, y.V)
			if ok {
				return &IfaceV{T: x.T, V: m}, true
			}
		}
		return nil, false
	case *BigV:
		y, ok := b.(*BigV)
		if ok {
			return &BigV{T: p.F.Ite(c, x.T, y.T)}, true
		}
		return nil, false
	}
	if a == b {
		return a, true
	}
	return nil, false
}

func samePath(a, b []Sel) bool {
	if len(a) != len(b) {
		return false
	}
	for i := range a {
		if a[i].Field != b[i].Field || a[i].Idx != b[i].Idx {
			return false
		}
	}
	return true
}

func samePtr(a, b *Ptr) bool {
	return a.Obj == b.Obj && samePath(a.Path, b.Path)
}

func (p *Path) loadAt(cur Value, path []Sel) Value {
	if len(path) == 0 {
		return cur
	}
	s := path[0]
	if s.Idx == nil {
		switch c := cur.(type) {
		case *StructV:
			return p.loadAt(c.F[s.Field], path[1:])
		case *BigV:
			p.unsupported("field access into math/big.Int summary")
		case *OpaqueV:
			p.unsupported("field access into opaque value %s", c.Name)
		}
		p.unsupported("field selector on %T", cur)
	}
	arr, ok := cur.(*ArrayV)
	if !ok {
		if o, ok := cur.(*OpaqueV); ok {
			p.unsupported("index into opaque value %s", o.Name)
		}
		p.unsupported("index selector on %T", cur)
	}
	if i, ok := p.idxConst(s.Idx); ok {
		if i >= len(arr.E) {
			p.end("unsupported", "internal: constant index %d out of object bounds %d", i, len(arr.E))
		}
		return p.loadAt(arr.E[i], path[1:])
	}
	n := len(arr.E)
	if n == 0 {
		p.end("infeasible", "symbolic index into empty array")
	}
	res := p.loadAt(arr.E[n-1], path[1:])
	okm := true
	for i := n - 2; i >= 0 && okm; i-- {
		e := p.loadAt(arr.E[i], path[1:])
		res, okm = p.merge(p.F.Eq(s.Idx, p.F.BVConst64(uint64(i), 64)), e, res)
	}
	if okm {
		return res
	}
	i := int(p.concretize(s.Idx, "load index"))
	if i >= n {
		p.end("infeasible", "index beyond object")
	}
	return p.loadAt(arr.E[i], path[1:])
}

func (p *Path) load(ptr *Ptr) Value {
	if ptr.Obj == nil {
		p.gopanic("runtime error: invalid memory address or nil pointer dereference")
	}
	return copyVal(p.loadAt(ptr.Obj.Val, ptr.Path))
}

// storeAt returns the updated container.
func (p *Path) storeAt(cur Value, path []Sel, v Value) Value {
	if len(path) == 0 {
		return v
	}
	s := path[0]
	if s.Idx == nil {
		c, ok := cur.(*StructV)
		if !ok {
			p.unsupported("field store on %T", cur)
		}
		c.F[s.Field] = p.storeAt(c.F[s.Field], path[1:], v)
		return c
	}
	arr, ok := cur.(*ArrayV)
	if !ok {
		p.unsupported("index store on %T", cur)
	}
	if i, ok := p.idxConst(s.Idx); ok {
		if i >= len(arr.E) {
			p.end("unsupported", "internal: constant store index %d out of object bounds %d", i, len(arr.E))
		}
		arr.E[i] = p.storeAt(arr.E[i], path[1:], v)
		return arr
	}
	n := len(arr.E)
	// try merging per element
	newE := make([]Value, n)
	okm := true
	for i := 0; i < n && okm; i++ {
		upd := p.storeAt(copyVal(arr.E[i]), path[1:], v)
		newE[i], okm = p.merge(p.F.Eq(s.Idx, p.F.BVConst64(uint64(i), 64)), upd, arr.E[i])
	}
	if okm {
		arr.E = newE
		return arr
	}
	i := int(p.concretize(s.Idx, "store index"))
	if i >= n {
		p.end("infeasible", "index beyond object")
	}
	arr.E[i] = p.storeAt(arr.E[i], path[1:], v)
	return arr
}

func (p *Path) store(ptr *Ptr, v Value) {
	if ptr.Obj == nil {
		p.gopanic("runtime error: invalid memory address or nil pointer dereference")
	}
	ptr.Obj.Written = true
	ptr.Obj.Val = p.storeAt(ptr.Obj.Val, ptr.Path, copyVal(v))
}

func extPath(path []Sel, s Sel) []Sel {
	n := make([]Sel, len(path)+1)
	copy(n, path)
	n[len(path)] = s
	return n
}

// sliceElemPtr returns a pointer to element i (term) of slice s; no bounds check.
func (p *Path) sliceElemPtr(s *SliceV, i *term.T) *Ptr {
	return &Ptr{Obj: s.Obj, Path: extPath(s.Base, Sel{Idx: p.F.BvAdd(s.Off, i)})}
}

// ---------- values: equality ----------

func (p *Path) valEq(a, b Value) *term.T {
	switch x := a.(type) {
	case *term.T:
		y, ok := b.(*term.T)
		if !ok {
			p.unsupported("compare scalar with %T", b)
		}
		return p.F.Eq(x, y)
	case *Ptr:
		y, ok := b.(*Ptr)
		if !ok {
			p.unsupported("compare pointer with %T", b)
		}
		if x.Obj != y.Obj || len(x.Path) != len(y.Path) {
			return p.F.False()
		}
		r := p.F.True()
		for i := range x.Path {
			sx, sy := x.Path[i], y.Path[i]
			if (sx.Idx == nil) != (sy.Idx == nil) {
				return p.F.False()
			}
			if sx.Idx == nil {
				if sx.Field != sy.Field {
					return p.F.False()
				}
			} else {
				r = p.F.And(r, p.F.Eq(sx.Idx, sy.Idx))
			}
		}
		return r
	case *StructV:
		y := b.(*StructV)
		r := p.F.True()
		for i := range x.F {
			r = p.F.And(r, p.valEq(x.F[i], y.F[i]))
		}
		return r
	case *ArrayV:
		y := b.(*ArrayV)
		r := p.F.True()
		for i := range x.E {
			r = p.F.And(r, p.valEq(x.E[i], y.E[i]))
		}
		return r
	case *IfaceV:
		y, ok := b.(*IfaceV)
		if !ok {
			p.unsupported("compare interface with %T", b)
		}
		if x.T == nil || y.T == nil {
			return p.F.BoolConst(x.T == nil && y.T == nil)
		}
		if !types.Identical(x.T, y.T) {
			return p.F.False()
		}
		return p.valEq(x.V, y.V)
	case StrV:
		switch y := b.(type) {
		case StrV:
			return p.F.BoolConst(x == y)
		case *SymStr:
			return p.symStrEq(y, x)
		}
	case *SymStr:
		switch y := b.(type) {
		case StrV:
			return p.symStrEq(x, y)
		case *SymStr:
			if len(x.B) != len(y.B) {
				return p.F.False()
			}
			r := p.F.True()
			for i := range x.B {
				r = p.F.And(r, p.F.Eq(x.B[i], y.B[i]))
			}
			return r
		}
	case *SliceV:
		// only comparison against nil is legal
		y := b.(*SliceV)
		if y.Obj == nil {
			return p.F.BoolConst(x.Obj == nil)
		}
		if x.Obj == nil {
			return p.F.BoolConst(y.Obj == nil)
		}
	case *MapV:
		y := b.(*MapV)
		return p.F.BoolConst(x.M == y.M)
	case *FuncV:
		y := b.(*FuncV)
		xn := x.Fn == nil && x.Builtin == nil
		yn := y.Fn == nil && y.Builtin == nil
		if xn || yn {
			return p.F.BoolConst(xn && yn)
		}
	case *OpaqueV:
		if y, ok := b.(*OpaqueV); ok {
			if x == y {
				return p.F.True()
			}
			if x.Name == "nilchan" && y.Name == "nilchan" {
				return p.F.True()
			}
		}
		p.unsupported("comparison of opaque value %s", x.Name)
	case *BigV:
		if y, ok := b.(*BigV); ok {
			return p.F.Eq(x.T, y.T)
		}
	}
	p.unsupported("equality on %T / %T", a, b)
	return nil
}

func (p *Path) symStrEq(x *SymStr, y StrV) *term.T {
	if len(x.B) != len(y) {
		return p.F.False()
	}
	r := p.F.True()
	for i := range x.B {
		r = p.F.And(r, p.F.Eq(x.B[i], p.F.BVConst64(uint64(y[i]), 8)))
	}
	return r
}

// ---------- globals & package init ----------

// global returns the path's object for a package-level variable. Package
// initialisers run once per worker on a template path; each exploring path
// gets a lazily made private copy of the object graph reachable from the
// globals it touches (identity between shared sub-objects is preserved by a
// per-path memo).
func (p *Path) global(g *ssa.Global) *Obj {
	if p.isTemplate {
		return p.globalTmpl(g)
	}
	if o, ok := p.globals[g]; ok {
		return o
	}
	tp := p.W.template()
	tp.steps = 0
	to := tp.globalTmpl(g)
	for s := range tp.stubs {
		p.stubs[s] = true
	}
	o := p.cloneObj(to)
	p.globals[g] = o
	return o
}

func (p *Path) cloneObj(to *Obj) *Obj {
	if to == nil {
		return nil
	}
	if o, ok := p.cloneMemo[to]; ok {
		return o
	}
	p.nextObj++
	o := &Obj{ID: p.nextObj, Typ: to.Typ, Name: to.Name, Written: to.Written}
	p.cloneMemo[to] = o
	o.Val = p.cloneVal(to.Val)
	return o
}

func (p *Path) cloneVal(v Value) Value {
	switch x := v.(type) {
	case *Ptr:
		if x.Obj == nil {
			return x
		}
		return &Ptr{Obj: p.cloneObj(x.Obj), Path: x.Path}
	case *SliceV:
		if x.Obj == nil {
			return x
		}
		return &SliceV{Obj: p.cloneObj(x.Obj), Base: x.Base, Off: x.Off, Len: x.Len, Cap: x.Cap}
	case *StructV:
		n := &StructV{F: make([]Value, len(x.F))}
		for i, f := range x.F {
			n.F[i] = p.cloneVal(f)
		}
		return n
	case *ArrayV:
		n := &ArrayV{E: make([]Value, len(x.E))}
		for i, e := range x.E {
			n.E[i] = p.cloneVal(e)
		}
		return n
	case *IfaceV:
		if x.T == nil {
			return x
		}
		return &IfaceV{T: x.T, V: p.cloneVal(x.V)}
	case *FuncV:
		if len(x.Bind) == 0 {
			return x
		}
		n := &FuncV{Fn: x.Fn, Builtin: x.Builtin, Bind: make([]Value, len(x.Bind))}
		for i, b := range x.Bind {
			n.Bind[i] = p.cloneVal(b)
		}
		return n
	case *ChanV:
		if x.C == nil {
			return x
		}
		if c, ok := p.extra["chanclone"].(map[*ChanObj]*ChanObj); ok {
			if n, ok := c[x.C]; ok {
				return &ChanV{C: n}
			}
		} else {
			p.extra["chanclone"] = map[*ChanObj]*ChanObj{}
		}
		n := &ChanObj{Cap: x.C.Cap}
		p.extra["chanclone"].(map[*ChanObj]*ChanObj)[x.C] = n
		for _, e := range x.C.Q {
			n.Q = append(n.Q, p.cloneVal(e))
		}
		return &ChanV{C: n}
	case *MapV:
		if x.M == nil {
			return x
		}
		if m, ok := p.cloneMapMemo[x.M]; ok {
			return &MapV{M: m}
		}
		p.nextObj++
		m := &MapObj{ID: p.nextObj, KT: x.M.KT, VT: x.M.VT}
		p.cloneMapMemo[x.M] = m
		for _, e := range x.M.Entries {
			m.Entries = append(m.Entries, &MapEntry{K: p.cloneVal(e.K), V: p.cloneVal(e.V)})
		}
		return &MapV{M: m}
	case TupleV:
		n := make(TupleV, len(x))
		for i, e := range x {
			n[i] = p.cloneVal(e)
		}
		return n
	}
	return v
}

func (p *Path) globalTmpl(g *ssa.Global) *Obj {
	if o, ok := p.globals[g]; ok {
		if why, bad := p.initAborted[g.Pkg]; bad && !o.Written && p.inInit == 0 {
			p.unsupported("read of global %s whose package initialiser could not be interpreted completely (%s)", g, why)
		}
		return o
	}
	pkg := g.Pkg
	if !p.initDone[pkg] {
		p.runInit(pkg)
		if o, ok := p.globals[g]; ok {
			return o
		}
	}
	o := p.newObj(deref(g.Type()), p.zero(deref(g.Type())), g.String())
	p.globals[g] = o
	return o
}

func (p *Path) runInit(pkg *ssa.Package) {
	p.initDone[pkg] = true
	p.E.buildPkg(pkg)
	// allocate all globals first
	var names []string
	for n, m := range pkg.Members {
		if _, ok := m.(*ssa.Global); ok {
			names = append(names, n)
		}
	}
	sort.Strings(names)
	for _, n := range names {
		g := pkg.Members[n].(*ssa.Global)
		if _, ok := p.globals[g]; !ok {
			p.globals[g] = p.newObj(deref(g.Type()), p.zero(deref(g.Type())), g.String())
		}
	}
	if p.E.skipInit(pkg) {
		// globals of this package are opaque zero values
		return
	}
	init := pkg.Func("init")
	if init == nil || init.Blocks == nil {
		return
	}
	p.inInit++
	defer func() { p.inInit-- }()
	savedSteps := p.steps
	func() {
		defer func() {
			if r := recover(); r != nil {
				if pe, ok := r.(*pathEnd); ok && (pe.kind == "unsupported" || pe.kind == "budget") {
					// partial init: remaining globals keep zero values; remember
					p.stubs["init("+pkg.Pkg.Path()+") aborted: "+pe.msg] = true
					p.initAborted[pkg] = pe.msg
					return
				}
				if gp, ok := r.(*goPanic); ok {
					p.stubs["init("+pkg.Pkg.Path()+") panicked: "+gp.msg] = true
					p.initAborted[pkg] = gp.msg
					return
				}
				if re, ok := r.(runtime.Error); ok {
					p.stubs["init("+pkg.Pkg.Path()+") aborted on an uninterpretable value: "+re.Error()] = true
					p.initAborted[pkg] = re.Error()
					return
				}
				panic(r)
			}
		}()
		p.callFunction(init, nil, nil, nil)
	}()
	p.steps = savedSteps
}

func posStr(fset *token.FileSet, pos token.Pos) string {
	if !pos.IsValid() {
		return "?"
	}
	ps := fset.Position(pos)
	f := ps.Filename
	if i := strings.Index(f, "/repo/"); i >= 0 {
		f = f[i+6:]
	}
	return fmt.Sprintf("%s:%d", f, ps.Line)
}

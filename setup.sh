#!/bin/sh
# Builds the gosmt engine offline from the module cache.
set -e
cd "$(dirname "$0")/engine"
export PATH=/opt/veriftools/go1.26.8/bin:$PATH GOTOOLCHAIN=local GOFLAGS=-mod=mod GOPROXY=off
mkdir -p ../bin
go build -o ../bin/gosmt ./cmd/gosmt

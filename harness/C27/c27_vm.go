package vm

import (
	"github.com/ethereum/go-ethereum/common/math"
	"github.com/holiman/uint256"
)

// Harnesses for C27 (resource-bound kernels of the EVM), package core/vm.

func zzU256() uint256.Int {
	return uint256.Int{zzNondetU64(), zzNondetU64(), zzNondetU64(), zzNondetU64()}
}

func zzFits64(x *uint256.Int) bool { return zzAll(x[1] == 0, x[2] == 0, x[3] == 0) }

// zzRegion is the specification of a memory region [off, off+len): its end
// as a 64-bit number, or overflow when the true end does not fit 64 bits. A
// zero-length region touches nothing.
func zzRegion(off, ln *uint256.Int) (end uint64, ovf bool) {
	if ln.IsZero() {
		return 0, false
	}
	if !zzFits64(ln) || !zzFits64(off) {
		return 0, true
	}
	s := off[0] + ln[0]
	return s, s < off[0]
}

func zzH_C27_memsize() {
	off, ln := zzU256(), zzU256()
	got, ovf := calcMemSize64(&off, &ln)
	want, wovf := zzRegion(&off, &ln)
	zzAssert(ovf == wovf, "calcMemSize64 reports overflow exactly when off+len does not fit 64 bits")
	if !ovf {
		zzAssert(got == want, "calcMemSize64 returns off+len (0 for an empty region)")
		zzReach("fits")
	} else {
		zzReach("overflow")
	}
	l64 := zzNondetU64()
	got2, ovf2 := calcMemSize64WithUint(&off, l64)
	l := uint256.Int{l64}
	want2, wovf2 := zzRegion(&off, &l)
	zzAssert(ovf2 == wovf2, "calcMemSize64WithUint overflow flag")
	if !ovf2 {
		zzAssert(got2 == want2, "calcMemSize64WithUint value")
	}
	// word size: ceil(size/32) over the integers
	s := zzNondetU64()
	w := toWordSize(s)
	wantW := s / 32
	if s%32 != 0 {
		wantW++
	}
	zzAssert(w == wantW, "toWordSize(s) == ceil(s/32) for every 64-bit s")
	zzObserve("w", w)
}

// zzStackWith builds a frame holding n symbolic words and returns them
// (index 0 = top of stack).
func zzStackWith(n int) (*Stack, []uint256.Int) {
	st := newStackForTesting()
	ws := make([]uint256.Int, n)
	for i := n - 1; i >= 0; i-- {
		ws[i] = zzU256()
		st.push(&ws[i])
	}
	return st, ws
}

func zzMaxRegion(a, al, b, bl *uint256.Int) (uint64, bool) {
	x, o := zzRegion(a, al)
	if o {
		return 0, true
	}
	y, o := zzRegion(b, bl)
	if o {
		return 0, true
	}
	if x > y {
		return x, false
	}
	return y, false
}

// Every memory-size function reads the operands the opcode's definition names.
func zzH_C27_memtable() {
	st, w := zzStackWith(7)
	c32, c1 := uint256.Int{32}, uint256.Int{1}
	var got, want uint64
	var ovf, wovf bool
	switch zzChoice(18) {
	case 0:
		got, ovf = memoryKeccak256(st)
		want, wovf = zzRegion(&w[0], &w[1])
	case 1:
		got, ovf = memoryCallDataCopy(st)
		want, wovf = zzRegion(&w[0], &w[2])
	case 2:
		got, ovf = memoryReturnDataCopy(st)
		want, wovf = zzRegion(&w[0], &w[2])
	case 3:
		got, ovf = memoryCodeCopy(st)
		want, wovf = zzRegion(&w[0], &w[2])
	case 4:
		got, ovf = memoryExtCodeCopy(st)
		want, wovf = zzRegion(&w[1], &w[3])
	case 5:
		got, ovf = memoryMLoad(st)
		want, wovf = zzRegion(&w[0], &c32)
	case 6:
		got, ovf = memoryMStore8(st)
		want, wovf = zzRegion(&w[0], &c1)
	case 7:
		got, ovf = memoryMStore(st)
		want, wovf = zzRegion(&w[0], &c32)
	case 8:
		got, ovf = memoryMcopy(st)
		// both the source and the destination range must be covered
		want, wovf = zzMaxRegion(&w[0], &w[2], &w[1], &w[2])
	case 9:
		got, ovf = memoryCreate(st)
		want, wovf = zzRegion(&w[1], &w[2])
	case 10:
		got, ovf = memoryCreate2(st)
		want, wovf = zzRegion(&w[1], &w[2])
	case 11:
		got, ovf = memoryCall(st)
		want, wovf = zzMaxRegion(&w[5], &w[6], &w[3], &w[4])
	case 12:
		got, ovf = memoryDelegateCall(st)
		want, wovf = zzMaxRegion(&w[4], &w[5], &w[2], &w[3])
	case 13:
		got, ovf = memoryStaticCall(st)
		want, wovf = zzMaxRegion(&w[4], &w[5], &w[2], &w[3])
	case 14:
		got, ovf = memoryReturn(st)
		want, wovf = zzRegion(&w[0], &w[1])
	case 15:
		got, ovf = memoryRevert(st)
		want, wovf = zzRegion(&w[0], &w[1])
	case 16:
		got, ovf = memoryLog(st)
		want, wovf = zzRegion(&w[0], &w[1])
	default:
		got, ovf = memoryCall(st) // CALLCODE shares memoryCall
		want, wovf = zzMaxRegion(&w[5], &w[6], &w[3], &w[4])
	}
	zzAssert(ovf == wovf, "memory-size function flags overflow exactly when a region end does not fit 64 bits")
	if !ovf {
		zzAssert(got == want, "memory-size function returns the end of the furthest region the opcode touches")
		zzReach("size")
	} else {
		zzReach("overflow")
	}
	zzObserve("got", got)
}

func zzMemCost(words uint64) uint64 { return words*3 + words*words/512 }

func zzH_C27_memgas() {
	w0 := uint64(zzChoice(4))
	mem := &Memory{store: make([]byte, 32*w0), lastGasCost: zzMemCost(w0)}
	newSize := zzNondetU64()
	fee, err := memoryGasCost(mem, newSize)
	if newSize > 0x1FFFFFFFE0 {
		zzAssert(err == ErrGasUintOverflow, "sizes beyond the 32-bit word-count limit are refused")
		zzReach("overflow")
		return
	}
	zzAssert(err == nil, "sizes within the limit are priced")
	w1 := toWordSize(newSize) // == ceil(newSize/32), shown for every 64-bit value by the memsize harness
	if w1 > w0 {
		zzReach("grow")
		zzAssert(fee == zzMemCost(w1)-zzMemCost(w0), "expansion fee is C(new words) - C(old words), C(w) = 3w + w*w/512")
		zzAssert(mem.lastGasCost == zzMemCost(w1), "running total updated")
	} else {
		zzReach("no-grow")
		zzAssert(fee == 0, "no fee without growth")
		zzAssert(mem.lastGasCost == zzMemCost(w0), "running total unchanged")
	}
	zzObserve("fee", fee)
}

func zzH_C27_callgas() {
	avail, base := zzNondetU64(), zzNondetU64()
	zzAssume(base <= avail)
	cost := zzU256()
	g, err := callGas(true, avail, base, &cost)
	a := avail - base
	cap63 := a - a/64
	zzAssert(err == nil, "EIP-150 call gas never errors")
	if zzFits64(&cost) && cost[0] <= cap63 {
		zzAssert(g == cost[0], "requested gas granted when it is within all-but-one-64th")
		zzReach("granted")
	} else {
		zzAssert(g == cap63, "otherwise capped at all-but-one-64th of what remains after the base cost")
		zzReach("capped")
	}
	zzAssert(g <= a, "never more than what is available")
	g0, err0 := callGas(false, avail, base, &cost)
	if zzFits64(&cost) {
		zzAssert(err0 == nil && g0 == cost[0], "pre-EIP-150: the requested amount")
	} else {
		zzAssert(err0 == ErrGasUintOverflow, "pre-EIP-150: overflow error for > 64-bit requests")
	}
	zzObserve("g", g)
}

// The interpreter's pre-step, literally (interpreter.go): memorySize(stack) ->
// toWordSize*32 via SafeMul -> Resize; then the real handler. Any byte the
// handler touches outside the resized (and paid-for) memory is a Go panic.
func zzPreStep(mem *Memory, st *Stack, msize func(*Stack) (uint64, bool)) bool {
	memSize, overflow := msize(st)
	if overflow {
		return false
	}
	memorySize, overflow := math.SafeMul(toWordSize(memSize), 32)
	if overflow {
		return false
	}
	zzAssume(memorySize <= uint64(zzBound("MEM")))
	if memorySize > 0 {
		mem.Resize(memorySize)
	}
	return true
}

func zzH_C27_touch_within_paid() {
	mem := &Memory{}
	input := zzNondetBytes(zzBound("IN"))
	contract := &Contract{Input: input, Code: input}
	evm := &EVM{}
	var pc uint64
	var st *Stack
	var run func() ([]byte, error)
	var msize func(*Stack) (uint64, bool)
	scope := &ScopeContext{Memory: mem, Contract: contract}
	switch zzChoice(8) {
	case 0:
		st, _ = zzStackWith(1)
		msize, run = memoryMLoad, func() ([]byte, error) { return opMload(&pc, evm, scope) }
	case 1:
		st, _ = zzStackWith(2)
		msize, run = memoryMStore, func() ([]byte, error) { return opMstore(&pc, evm, scope) }
	case 2:
		st, _ = zzStackWith(2)
		msize, run = memoryMStore8, func() ([]byte, error) { return opMstore8(&pc, evm, scope) }
	case 3:
		st, _ = zzStackWith(3)
		msize, run = memoryMcopy, func() ([]byte, error) { return opMcopy(&pc, evm, scope) }
	case 4:
		st, _ = zzStackWith(2)
		msize, run = memoryReturn, func() ([]byte, error) { return opReturn(&pc, evm, scope) }
	case 5:
		st, _ = zzStackWith(2)
		msize, run = memoryRevert, func() ([]byte, error) { return opRevert(&pc, evm, scope) }
	case 6:
		st, _ = zzStackWith(3)
		msize, run = memoryCallDataCopy, func() ([]byte, error) { return opCallDataCopy(&pc, evm, scope) }
	default:
		st, _ = zzStackWith(3)
		msize, run = memoryCodeCopy, func() ([]byte, error) { return opCodeCopy(&pc, evm, scope) }
	}
	scope.Stack = st
	if !zzPreStep(mem, st, msize) {
		zzReach("refused")
		return
	}
	before := mem.Len()
	run() // must not panic
	zzAssert(mem.Len() == before, "handlers never grow memory themselves")
	zzReach("executed")
	zzObserve("len", mem.Len())
}

package vm

import (
	"github.com/ethereum/go-ethereum/common/math"
	"github.com/holiman/uint256"
)

// Harnesses for C27 (resource-bound kernels of the EVM), package core/vm.

func zzU256() uint256.Int {
	return uint256.Int{zzNondetU64(), zzNondetU64(), zzNondetU64(), zzNondetU64()}
}

func zzFits64(x *uint256.Int) bool { return zzAll(x[1] == 0, x[2] == 0, x[3] == 0) }

// zzRegion is the specification of a memory region [off, off+len): its end
// as a 64-bit number, or overflow when the true end does not fit 64 bits. A
// zero-length region touches nothing.
func zzRegion(off, ln *uint256.Int) (end uint64, ovf bool) {
	if ln.IsZero() {
		return 0, false
	}
	if !zzFits64(ln) || !zzFits64(off) {
		return 0, true
	}
	s := off[0] + ln[0]
	return s, s < off[0]
}

func zzH_C27_memsize() {
	off, ln := zzU256(), zzU256()
	got, ovf := calcMemSize64(&off, &ln)
	want, wovf := zzRegion(&off, &ln)
	zzAssert(ovf == wovf, "calcMemSize64 reports overflow exactly when off+len does not fit 64 bits")
	if !ovf {
		zzAssert(got == want, "calcMemSize64 returns off+len (0 for an empty region)")
		zzReach("fits")
	} else {
		zzReach("overflow")
	}
	l64 := zzNondetU64()
	got2, ovf2 := calcMemSize64WithUint(&off, l64)
	l := uint256.Int{l64}
	want2, wovf2 := zzRegion(&off, &l)
	zzAssert(ovf2 == wovf2, "calcMemSize64WithUint overflow flag")
	if !ovf2 {
		zzAssert(got2 == want2, "calcMemSize64WithUint value")
	}
	// word size: ceil(size/32) over the integers
	s := zzNondetU64()
	w := toWordSize(s)
	wantW := s / 32
	if s%32 != 0 {
		wantW++
	}
	zzAssert(w == wantW, "toWordSize(s) == ceil(s/32) for every 64-bit s")
	zzObserve("w", w)
}

// zzStackWith builds a frame holding n symbolic words and returns them
// (index 0 = top of stack).
func zzStackWith(n int) (*Stack, []uint256.Int) {
	st := newStackForTesting()
	ws := make([]uint256.Int, n)
	for i := n - 1; i >= 0; i-- {
		ws[i] = zzU256()
		st.push(&ws[i])
	}
	return st, ws
}

func zzMaxRegion(a, al, b, bl *uint256.Int) (uint64, bool) {
	x, o := zzRegion(a, al)
	if o {
		return 0, true
	}
	y, o := zzRegion(b, bl)
	if o {
		return 0, true
	}
	if x > y {
		return x, false
	}
	return y, false
}

// Every memory-size function reads the operands the opcode's definition names.
func zzH_C27_memtable() {
	st, w := zzStackWith(7)
	c32, c1 := uint256.Int{32}, uint256.Int{1}
	var got, want uint64
	var ovf, wovf bool
	switch zzChoice(18) {
	case 0:
		got, ovf = memoryKeccak256(st)
		want, wovf = zzRegion(&w[0], &w[1])
	case 1:
		got, ovf = memoryCallDataCopy(st)
		want, wovf = zzRegion(&w[0], &w[2])
	case 2:
		got, ovf = memoryReturnDataCopy(st)
		want, wovf = zzRegion(&w[0], &w[2])
	case 3:
		got, ovf = memoryCodeCopy(st)
		want, wovf = zzRegion(&w[0], &w[2])
	case 4:
		got, ovf = memoryExtCodeCopy(st)
		want, wovf = zzRegion(&w[1], &w[3])
	case 5:
		got, ovf = memoryMLoad(st)
		want, wovf = zzRegion(&w[0], &c32)
	case 6:
		got, ovf = memoryMStore8(st)
		want, wovf = zzRegion(&w[0], &c1)
	case 7:
		got, ovf = memoryMStore(st)
		want, wovf = zzRegion(&w[0], &c32)
	case 8:
		got, ovf = memoryMcopy(st)
		// both the source and the destination range must be covered
		want, wovf = zzMaxRegion(&w[0], &w[2], &w[1], &w[2])
	case 9:
		got, ovf = memoryCreate(st)
		want, wovf = zzRegion(&w[1], &w[2])
	case 10:
		got, ovf = memoryCreate2(st)
		want, wovf = zzRegion(&w[1], &w[2])
	case 11:
		got, ovf = memoryCall(st)
		want, wovf = zzMaxRegion(&w[5], &w[6], &w[3], &w[4])
	case 12:
		got, ovf = memoryDelegateCall(st)
		want, wovf = zzMaxRegion(&w[4], &w[5], &w[2], &w[3])
	case 13:
		got, ovf = memoryStaticCall(st)
		want, wovf = zzMaxRegion(&w[4], &w[5], &w[2], &w[3])
	case 14:
		got, ovf = memoryReturn(st)
		want, wovf = zzRegion(&w[0], &w[1])
	case 15:
		got, ovf = memoryRevert(st)
		want, wovf = zzRegion(&w[0], &w[1])
	case 16:
		got, ovf = memoryLog(st)
		want, wovf = zzRegion(&w[0], &w[1])
	default:
		got, ovf = memoryCall(st) // CALLCODE shares memoryCall
		want, wovf = zzMaxRegion(&w[5], &w[6], &w[3], &w[4])
	}
	zzAssert(ovf == wovf, "memory-size function flags overflow exactly when a region end does not fit 64 bits")
	if !ovf {
		zzAssert(got == want, "memory-size function returns the end of the furthest region the opcode touches")
		zzReach("size")
	} else {
		zzReach("overflow")
	}
	zzObserve("got", got)
}

func zzMemCost(words uint64) uint64 { return words*3 + words*words/512 }

func zzH_C27_memgas() {
	w0 := uint64(zzChoice(4))
	mem := &Memory{store: make([]byte, 32*w0), lastGasCost: zzMemCost(w0)}
	newSize := zzNondetU64()
	fee, err := memoryGasCost(mem, newSize)
	if newSize > 0x1FFFFFFFE0 {
		zzAssert(err == ErrGasUintOverflow, "sizes beyond the 32-bit word-count limit are refused")
		zzReach("overflow")
		return
	}
	zzAssert(err == nil, "sizes within the limit are priced")
	w1 := toWordSize(newSize) // == ceil(newSize/32), shown for every 64-bit value by the memsize harness
	if w1 > w0 {
		zzReach("grow")
		zzAssert(fee == zzMemCost(w1)-zzMemCost(w0), "expansion fee is C(new words) - C(old words), C(w) = 3w + w*w/512")
		zzAssert(mem.lastGasCost == zzMemCost(w1), "running total updated")
	} else {
		zzReach("no-grow")
		zzAssert(fee == 0, "no fee without growth")
		zzAssert(mem.lastGasCost == zzMemCost(w0), "running total unchanged")
	}
	zzObserve("fee", fee)
}

func zzH_C27_callgas() {
	avail, base := zzNondetU64(), zzNondetU64()
	zzAssume(base <= avail)
	cost := zzU256()
	g, err := callGas(true, avail, base, &cost)
	a := avail - base
	cap63 := a - a/64
	zzAssert(err == nil, "EIP-150 call gas never errors")
	if zzFits64(&cost) && cost[0] <= cap63 {
		zzAssert(g == cost[0], "requested gas granted when it is within all-but-one-64th")
		zzReach("granted")
	} else {
		zzAssert(g == cap63, "otherwise capped at all-but-one-64th of what remains after the base cost")
		zzReach("capped")
	}
	zzAssert(g <= a, "never more than what is available")
	g0, err0 := callGas(false, avail, base, &cost)
	if zzFits64(&cost) {
		zzAssert(err0 == nil && g0 == cost[0], "pre-EIP-150: the requested amount")
	} else {
		zzAssert(err0 == ErrGasUintOverflow, "pre-EIP-150: overflow error for > 64-bit requests")
	}
	zzObserve("g", g)
}

// The interpreter's pre-step, literally (interpreter.go): memorySize(stack) ->
// toWordSize*32 via SafeMul -> Resize; then the real handler. Any byte the
// handler touches outside the resized (and paid-for) memory is a Go panic.
func zzPreStep(mem *Memory, st *Stack, msize func(*Stack) (uint64, bool)) bool {
	memSize, overflow := msize(st)
	if overflow {
		return false
	}
	memorySize, overflow := math.SafeMul(toWordSize(memSize), 32)
	if overflow {
		return false
	}
	zzAssume(memorySize <= uint64(zzBound("MEM")))
	if memorySize > 0 {
		mem.Resize(memorySize)
	}
	return true
}

func zzH_C27_touch_within_paid() {
	mem := &Memory{}
	input := zzNondetBytes(zzBound("IN"))
	contract := &Contract{Input: input, Code: input}
	evm := &EVM{}
	var pc uint64
	var st *Stack
	var run func() ([]byte, error)
	var msize func(*Stack) (uint64, bool)
	scope := &ScopeContext{Memory: mem, Contract: contract}
	switch zzChoice(9) {
	case 8:
		// RETURNDATACOPY reads the previous call's return data: out-of-range requests are an
		// error (ErrReturnDataOutOfBounds), never a panic, whatever the offsets are
		evm.returnData = zzNondetBytes(zzBound("IN"))
		st, _ = zzStackWith(3)
		msize, run = memoryReturnDataCopy, func() ([]byte, error) { return opReturnDataCopy(&pc, evm, scope) }
	case 0:
		st, _ = zzStackWith(1)
		msize, run = memoryMLoad, func() ([]byte, error) { return opMload(&pc, evm, scope) }
	case 1:
		st, _ = zzStackWith(2)
		msize, run = memoryMStore, func() ([]byte, error) { return opMstore(&pc, evm, scope) }
	case 2:
		st, _ = zzStackWith(2)
		msize, run = memoryMStore8, func() ([]byte, error) { return opMstore8(&pc, evm, scope) }
	case 3:
		st, _ = zzStackWith(3)
		msize, run = memoryMcopy, func() ([]byte, error) { return opMcopy(&pc, evm, scope) }
	case 4:
		st, _ = zzStackWith(2)
		msize, run = memoryReturn, func() ([]byte, error) { return opReturn(&pc, evm, scope) }
	case 5:
		st, _ = zzStackWith(2)
		msize, run = memoryRevert, func() ([]byte, error) { return opRevert(&pc, evm, scope) }
	case 6:
		st, _ = zzStackWith(3)
		msize, run = memoryCallDataCopy, func() ([]byte, error) { return opCallDataCopy(&pc, evm, scope) }
	default:
		st, _ = zzStackWith(3)
		msize, run = memoryCodeCopy, func() ([]byte, error) { return opCodeCopy(&pc, evm, scope) }
	}
	scope.Stack = st
	if !zzPreStep(mem, st, msize) {
		zzReach("refused")
		return
	}
	before := mem.Len()
	run() // must not panic
	zzAssert(mem.Len() == before, "handlers never grow memory themselves")
	zzReach("executed")
	zzObserve("len", mem.Len())
}

// ---- EIP-8024 (DUPN / SWAPN / EXCHANGE): immediates and stack bounds ----

// zzValidSingle / zzValidPair: the immediates the EIP allows.
func zzValidSingle(x byte) bool { return x <= 90 || x >= 128 }
func zzValidPair(x byte) bool   { return x <= 81 || x >= 128 }

// decode_single of the EIP: immediates 128..255 are depths 17..144, 0..90 are 145..235.
func zzSpecSingle(x byte) int {
	if x >= 128 {
		return int(x) - 111
	}
	return int(x) + 145
}

func zzH_C27_decode_props() {
	x, y := zzNondetU8(), zzNondetU8()
	if zzValidSingle(x) {
		n := decodeSingle(x)
		zzAssert(n == zzSpecSingle(x), "decodeSingle equals decode_single of the EIP")
		zzAssert(n >= 17 && n <= 235, "single depth within 17..235")
		if zzValidSingle(y) && x != y {
			zzAssert(decodeSingle(y) != n, "decodeSingle is injective on valid immediates")
		}
		zzReach("single")
	}
	if zzValidPair(x) {
		n, m := decodePair(x)
		zzAssert(n >= 1 && n < m && n+m <= 30, "pair satisfies 1 <= n < m, n+m <= 30")
		if zzValidPair(y) && x != y {
			n2, m2 := decodePair(y)
			zzAssert(n2 != n || m2 != m, "decodePair is injective on valid immediates")
		}
		zzReach("pair")
	}
}

// zzFrame builds an arena holding a suspended parent frame of P symbolic words and a
// child frame of n symbolic words on top of it.
func zzFrame(P, n int) (arena *stackArena, parent []uint256.Int, st *Stack, words []uint256.Int) {
	arena = &stackArena{data: make([]uint256.Int, initialStackSize)}
	parent = make([]uint256.Int, P)
	for i := range parent {
		parent[i] = zzU256()
		arena.data[i] = parent[i]
	}
	arena.top = P
	st = arena.stack()
	words = make([]uint256.Int, n) // words[0] = bottom of the child frame
	for i := range words {
		words[i] = zzU256()
		st.push(&words[i])
	}
	return
}

// The real handlers on a child frame of exactly N words above a parent frame, for an
// immediate x: either the error the EIP prescribes, or exactly the EIP's effect; the
// parent frame is never read into the result nor written.
func zzH_C27_stack_immediates() {
	const P = 2
	var x byte
	if zzBound("ALLIMM") != 0 {
		x = byte(zzChoice(256))
	} else {
		imms := [...]byte{0, 1, 81, 82, 90, 91, 127, 128, 129, 143, 144, 240, 255}
		x = imms[zzChoice(len(imms))]
	}
	missing := zzNondetBool() // the immediate byte lies beyond the end of code: treated as 0
	op := zzChoice(3)
	opcode := [...]OpCode{DUPN, SWAPN, EXCHANGE}[op]
	code := []byte{byte(opcode), x}
	if missing {
		code = code[:1]
		x = 0
	}
	// required depth according to the EIP
	valid := zzValidSingle(x)
	need := 0
	var n, m int
	switch op {
	case 0:
		n = zzSpecSingle(x)
		need = n
	case 1:
		n = zzSpecSingle(x)
		need = n + 1
	default:
		valid = zzValidPair(x)
		n, m = decodePair(x) // shape properties of decodePair are decode_props' subject
		need = m + 1
	}
	// frame sizes around the required depth, and the table's minimum
	N := need - 2 + zzChoice(4)
	if !valid {
		N = 1 + zzChoice(3)
	}
	zzAssume(N >= 1 && N <= 1023)
	arena, parent, st, w := zzFrame(P, N)
	scope := &ScopeContext{Stack: st, Contract: &Contract{Code: code}}
	var pc uint64
	var err error
	switch op {
	case 0:
		_, err = opDupN(&pc, &EVM{}, scope)
	case 1:
		_, err = opSwapN(&pc, &EVM{}, scope)
	default:
		_, err = opExchange(&pc, &EVM{}, scope)
	}
	for i := range parent {
		zzAssert(arena.data[i] == parent[i], "the suspended parent frame is untouched")
	}
	switch {
	case !valid:
		_, ok := err.(*ErrInvalidOpCode)
		zzAssert(ok, "forbidden immediate is an invalid opcode")
		zzAssert(st.len() == N && pc == 0, "failed instruction has no effect")
		zzReach("invalid-immediate")
	case N < need:
		_, ok := err.(*ErrStackUnderflow)
		zzAssert(ok, "insufficient depth is a stack underflow")
		zzAssert(st.len() == N && pc == 0, "failed instruction has no effect")
		for i := 0; i < N; i++ {
			zzAssert(arena.data[P+i] == w[i], "failed instruction leaves the frame alone")
		}
		zzReach("underflow")
	default:
		zzAssert(err == nil, "valid immediate with sufficient depth succeeds")
		zzAssert(pc == 1, "pc skips the immediate")
		top := N - 1
		switch op {
		case 0:
			zzAssert(st.len() == N+1, "DUPN pushes one word")
			zzAssert(arena.data[P+N] == w[N-n], "DUPN duplicates the n-th word")
			for i := 0; i < N; i++ {
				zzAssert(arena.data[P+i] == w[i], "DUPN leaves the rest")
			}
		case 1:
			zzAssert(st.len() == N, "SWAPN keeps the size")
			for i := 0; i < N; i++ {
				want := w[i]
				if i == top {
					want = w[top-n]
				} else if i == top-n {
					want = w[top]
				}
				zzAssert(arena.data[P+i] == want, "SWAPN swaps the top with the (n+1)-th word only")
			}
		default:
			zzAssert(st.len() == N, "EXCHANGE keeps the size")
			for i := 0; i < N; i++ {
				want := w[i]
				if i == top-n {
					want = w[top-m]
				} else if i == top-m {
					want = w[top-n]
				}
				zzAssert(arena.data[P+i] == want, "EXCHANGE swaps the (n+1)-th with the (m+1)-th word only")
			}
		}
		zzReach("executed")
	}
	zzObserve("len", int64(st.len()))
}

// ---- the real interpreter loop on short programs ----

// zzInstr appends one instruction from the menu of opcodes that need only the
// stack, memory, code and call data (no state database); immediates are symbolic.
func zzInstr(code []byte, menu int) []byte {
	ops := [...]OpCode{PUSH0, PUSH1, PUSH8, POP, DUP1, ADD, MLOAD, MSTORE, MSIZE, JUMP, JUMPDEST, RETURN,
		PUSH32, SWAP1, MSTORE8, MCOPY, JUMPI, PC, GAS, CALLDATALOAD, CALLDATASIZE, CALLDATACOPY, CODECOPY, REVERT, STOP, INVALID,
		DUPN, SWAPN, EXCHANGE, OpCode(0x0c)}
	if menu > len(ops) {
		menu = len(ops)
	}
	op := ops[zzChoice(menu)]
	code = append(code, byte(op))
	n := 0
	switch op {
	case PUSH1, DUPN, SWAPN, EXCHANGE:
		n = 1
	case PUSH8:
		n = 8
	case PUSH32:
		n = 32
	}
	for i := 0; i < n; i++ {
		code = append(code, zzNondetU8())
	}
	return code
}

// built once by the package initialiser (the constructors run concretely)
var zzAmsterdamTable = newAmsterdamInstructionSet()

// EVM.Run itself (the real loop: stack validation, constant and dynamic gas, memory
// pre-step, handler, pc) on every program of K menu instructions, Amsterdam rules,
// symbolic gas and call data, running as a child frame above a suspended parent.
func zzH_C27_run_small() {
	const P = 2
	tbl := zzAmsterdamTable
	arena := &stackArena{data: make([]uint256.Int, initialStackSize)}
	var parent [P]uint256.Int
	for i := range parent {
		parent[i] = zzU256()
		arena.data[i] = parent[i]
	}
	arena.top = P
	evm := &EVM{table: &tbl, arena: arena}
	var code []byte
	for k := 0; k < zzBound("K"); k++ {
		code = zzInstr(code, zzBound("MENU"))
	}
	gas0 := zzNondetU64()
	zzAssume(gas0 <= uint64(zzBound("GAS"))) // bounds the memory a program can pay for
	input := zzNondetBytes(zzBound("IN"))
	c := &Contract{Code: code, Gas: GasBudget{ExecutionGas: gas0}}
	ret, err := evm.Run(c, input, false) // must not panic, whatever the program does

	g := c.Gas
	zzAssert(g.ExecutionGas <= gas0, "execution never creates gas")
	zzAssert(g.UsedExecutionGas == gas0-g.ExecutionGas, "gas used + gas left = gas given")
	zzAssert(g.StateGas == 0 && g.UsedStateGas == 0 && g.Spilled == 0, "no state gas without state operations")
	for i := range parent {
		zzAssert(arena.data[i] == parent[i], "the suspended parent frame is untouched")
	}
	zzAssert(arena.top == P, "the frame's stack is released")
	zzAssert(evm.depth == 0, "call depth restored")
	if err == nil {
		zzReach("completed")
	} else {
		zzAssert(ret == nil || err == ErrExecutionReverted, "only a revert carries data with an error")
		zzReach("failed")
	}
	zzObserve("gasleft", g.ExecutionGas)
}

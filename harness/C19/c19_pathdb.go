package pathdb

import (
	"math"

	"github.com/ethereum/go-ethereum/common"
	"github.com/ethereum/go-ethereum/ethdb"
)

// Harnesses for C19 (history index: block level), package triedb/pathdb.

// Arbitrary block bytes: reader, lookup, full iteration and writer
// construction must return values or errors, never panic.
func zzH_C19_parse_total() {
	blob := zzNondetBytes(zzBound("N"))
	hasExt := zzNondetBool()
	br, err := newBlockReader(blob, hasExt)
	if err != nil {
		zzReach("rejected")
		return
	}
	zzReach("parsed")
	q := zzNondetU64()
	br.readGreaterThan(q)
	it := br.newIterator(nil)
	steps := zzBound("U")
	for i := 0; i < steps && it.Next(); i++ {
	}
	zzReach("iterated")
}

// Arbitrary element bytes inside a well-formed single-section frame, with
// extensions enabled: the element walk (id varint, extension length varint,
// extension payload) must reject malformed bytes with an error.
func zzH_C19_ext_total() {
	data := zzNondetBytes(zzBound("N"))
	zzAssume(len(data) >= 1)
	zzAssume(data[0] < 0x80) // the first element id is a one-byte varint; what follows is arbitrary
	blob := append(append([]byte{}, data...), 0, 0, 1) // one restart at offset 0
	br, err := newBlockReader(blob, true)
	zzAssert(err == nil, "a single restart at offset 0 is a valid frame")
	br.readGreaterThan(0)
	it := br.newIterator(nil)
	steps := zzBound("U")
	for i := 0; i < steps && it.Next(); i++ {
	}
	if it.Error() != nil {
		zzReach("rejected")
	} else {
		zzReach("walked")
	}
}

// The writer constructor re-parses stored bytes and prunes above a limit. The
// descriptor is the one a reader derives from the very same bytes (entry count
// and maximum), i.e. bytes and metadata are mutually consistent; the bytes are
// otherwise arbitrary.
func zzH_C19_writer_total() {
	blob := zzNondetBytes(zzBound("N"))
	hasExt := zzNondetBool()
	br, err := newBlockReader(blob, hasExt)
	if err != nil {
		zzReach("rejected")
		return
	}
	it := br.newIterator(nil)
	var (
		count uint16
		last  uint64
	)
	steps := zzBound("N")
	for i := 0; i <= steps && it.Next(); i++ {
		count++
		zzAssume(it.ID() > last) // strictly ascending, non-zero ids: what append can have produced
		last = it.ID()
	}
	if it.Error() != nil || count == 0 {
		zzReach("reader-error")
		return
	}
	desc := newIndexBlockDesc(0, 0)
	if hasExt {
		desc = newIndexBlockDesc(0, bitmapBytesThreeLevels)
	}
	desc.max, desc.entries = last, count
	limit := zzNondetU64()
	w, err := newBlockWriter(blob, desc, limit, hasExt)
	if err != nil {
		zzReach("writer-rejected")
		return
	}
	zzReach("opened")
	zzAssert(w.empty() || w.last() <= limit, "after opening nothing above the limit remains")
}

// zzAscending returns n ids with id[0] >= 1 and strictly ascending, each delta
// bounded by zzBound("DELTA_BITS") bits (64 = unbounded).
func zzAscending(n int) []uint64 {
	ids := make([]uint64, n)
	bits := uint(zzBound("DELTA_BITS"))
	var prev uint64
	for i := range ids {
		d := zzNondetU64()
		zzAssume(d >= 1)
		if bits < 64 {
			zzAssume(d < uint64(1)<<bits)
		}
		zzAssume(prev+d > prev) // no wrap-around
		prev += d
		ids[i] = prev
	}
	return ids
}

// Reference: least stored id greater than q, or MaxUint64.
func zzRefGT(ids []uint64, q uint64) uint64 {
	res := uint64(math.MaxUint64)
	for i := len(ids) - 1; i >= 0; i-- {
		res = zzIte(ids[i] > q, ids[i], res)
	}
	return res
}

func zzH_C19_append_read() {
	n := zzChoice(zzBound("K")) + 1
	ids := zzAscending(n)
	w, err := newBlockWriter(nil, newIndexBlockDesc(0, 0), 0, false)
	zzAssert(err == nil, "fresh writer")
	for _, id := range ids {
		zzAssert(w.append(id, nil) == nil, "ascending append accepted")
	}
	zzAssert(w.desc.max == ids[n-1], "descriptor max is the last id")
	zzAssert(int(w.desc.entries) == n, "descriptor counts the entries")
	// appending a non-ascending id is refused and changes nothing
	bad := zzNondetU64()
	zzAssume(bad <= ids[n-1])
	zzAssert(w.append(bad, nil) != nil, "out-of-order append refused")
	blob := w.finish()
	br, err := newBlockReader(blob, false)
	zzAssert(err == nil, "finished block parses")
	q := zzNondetU64()
	got, err := br.readGreaterThan(q)
	zzAssert(err == nil, "lookup succeeds")
	zzAssert(got == zzRefGT(ids, q), "readGreaterThan returns the least stored id greater than the query")
	it := br.newIterator(nil)
	for i := 0; i < n; i++ {
		zzAssert(it.Next(), "iterator yields every stored id")
		zzAssert(it.ID() == ids[i], "iteration is in ascending stored order")
	}
	zzAssert(!it.Next(), "iterator stops after the last id")
	zzAssert(it.Error() == nil, "no iterator error")
	// SeekGT then Next continues from the found element
	it2 := br.newIterator(nil)
	if it2.SeekGT(q) {
		zzReach("seek-found")
		zzAssert(it2.ID() == zzRefGT(ids, q), "SeekGT positions at the least id greater than the query")
		cur := it2.ID()
		if it2.Next() {
			zzAssert(it2.ID() == zzRefGT(ids, cur), "Next after SeekGT yields the successor")
		} else {
			zzAssert(cur == ids[n-1], "Next fails only after the last id")
		}
	} else {
		zzReach("seek-none")
		zzAssert(q >= ids[n-1], "SeekGT fails only when nothing is greater")
	}
	// reopen for writing from the encoded bytes: same state
	d2 := newIndexBlockDesc(0, 0)
	d2.max, d2.entries = w.desc.max, w.desc.entries
	w2, err := newBlockWriter(blob, d2, math.MaxUint64, false)
	zzAssert(err == nil, "reopen succeeds")
	zzAssert(zzBytesEq(w2.finish(), blob), "write/read round trip is byte-identical")
	zzObserve("blob", blob)
	zzObserve("gt", got)
}

func zzH_C19_append_pop() {
	n := zzChoice(zzBound("K")) + 1
	ids := zzAscending(n)
	w, _ := newBlockWriter(nil, newIndexBlockDesc(0, 0), 0, false)
	for _, id := range ids[:n-1] {
		w.append(id, nil)
	}
	before := w.finish()
	maxBefore, entBefore := w.desc.max, w.desc.entries
	zzAssert(w.append(ids[n-1], nil) == nil, "append")
	// popping anything but the last id is refused
	other := zzNondetU64()
	zzAssume(other != ids[n-1])
	zzAssert(w.pop(other) != nil, "pop of a non-last id refused")
	zzAssert(w.pop(ids[n-1]) == nil, "pop of the last id accepted")
	zzAssert(w.desc.max == maxBefore, "pop restores max")
	zzAssert(w.desc.entries == entBefore, "pop restores the entry count")
	if n > 1 {
		zzAssert(zzBytesEq(w.finish(), before), "append then pop restores the encoded block")
		zzReach("restored")
	} else {
		zzAssert(w.empty(), "popping the only element empties the block")
		zzAssert(len(w.data) == 0, "no data left")
		zzAssert(len(w.restarts) == 0, "no restarts left")
		zzReach("emptied")
	}
	// prune from the tail through the constructor: everything above limit goes
	for _, id := range ids[:n-1] {
		_ = id
	}
	zzObserve("max", w.desc.max)
}

// Tail pruning via the constructor limit.
func zzH_C19_prune() {
	n := zzChoice(zzBound("K")) + 1
	ids := zzAscending(n)
	w, _ := newBlockWriter(nil, newIndexBlockDesc(0, 0), 0, false)
	for _, id := range ids {
		w.append(id, nil)
	}
	blob := w.finish()
	limit := zzNondetU64()
	d := newIndexBlockDesc(0, 0)
	d.max, d.entries = w.desc.max, w.desc.entries
	w2, err := newBlockWriter(blob, d, limit, false)
	zzAssert(err == nil, "reopen with limit succeeds")
	// survivors are exactly the ids <= limit
	keep := 0
	for i := 0; i < n; i++ {
		if ids[i] <= limit {
			keep++
		}
	}
	zzAssert(int(w2.desc.entries) == keep, "pruning keeps exactly the ids <= limit")
	if keep > 0 {
		zzAssert(w2.desc.max == ids[keep-1], "max after pruning")
		br, err := newBlockReader(w2.finish(), false)
		zzAssert(err == nil, "pruned block parses")
		got, _ := br.readGreaterThan(0)
		zzAssert(got == ids[0], "first id survives")
		zzReach("kept-some")
	} else {
		zzAssert(w2.empty(), "everything pruned")
		zzReach("kept-none")
	}
	zzObserve("keep", keep)
}

func zzH_C19_desc_codec() {
	d := &indexBlockDesc{max: zzNondetU64(), entries: zzNondetU16(), id: zzNondetU32()}
	withBitmap := zzNondetBool()
	if withBitmap {
		d.extBitmap = zzNondetBytesN(bitmapBytesTwoLevels)
	}
	enc := d.encode()
	zzAssert(len(enc) == indexBlockDescSize+len(d.extBitmap), "descriptor size")
	var back indexBlockDesc
	back.decode(enc)
	zzAssert(zzAll(back.max == d.max, back.entries == d.entries, back.id == d.id, zzBytesEq(back.extBitmap, d.extBitmap)), "descriptor encode/decode round trip")
	c := d.copy()
	zzAssert(zzAll(c.max == d.max, c.entries == d.entries, c.id == d.id, zzBytesEq(c.extBitmap, d.extBitmap)), "descriptor copy")
	zzReach("desc")
	zzObserve("enc", enc)
}

// ---- pruning of whole index blocks below the tail ----

// zzBatch records what a prune step deletes and writes.
type zzBatch struct {
	ethdb.Batch // unused methods are not called
	dels [][]byte
	puts [][2][]byte
}

func (b *zzBatch) Delete(key []byte) error {
	b.dels = append(b.dels, append([]byte{}, key...))
	return nil
}
func (b *zzBatch) Put(key, value []byte) error {
	b.puts = append(b.puts, [2][]byte{append([]byte{}, key...), append([]byte{}, value...)})
	return nil
}

// pruneEntry on the metadata of 1..3 well-formed blocks (ascending max, consecutive ids) and a
// symbolic tail: exactly the leading blocks that lie entirely below the tail are deleted, the
// metadata keeps exactly the rest (every id >= tail stays reachable), nothing else is touched.
func zzH_C19_prune_entry() {
	n := 1 + zzChoice(zzBound("BLOCKS"))
	bsize := 0
	if zzNondetBool() {
		bsize = 2
	}
	first := zzNondetU32()
	zzAssume(first < 1<<20)
	var descs []*indexBlockDesc
	var blob []byte
	for i := 0; i < n; i++ {
		d := newIndexBlockDesc(first+uint32(i), bsize)
		d.max = zzNondetU64()
		d.entries = zzNondetU16()
		zzAssume(d.entries > 0)
		if i > 0 {
			zzAssume(descs[i-1].max < d.max) // blocks hold ascending id ranges
		}
		for k := range d.extBitmap {
			d.extBitmap[k] = zzNondetU8()
		}
		descs = append(descs, d)
		blob = append(blob, d.encode()...)
	}
	tail := zzNondetU64() // id of the first history that is still alive
	ident := newAccountIdent(common.Hash{1})
	batch := &zzBatch{}
	count, err := (&indexPruner{}).pruneEntry(batch, ident, blob, bsize, tail)
	zzAssert(err == nil, "well-formed metadata is pruned without error")
	want := 0
	for want < n && descs[want].max < tail {
		want++
	}
	zzAssert(count == want, "exactly the leading blocks whose ids all lie below the tail are pruned")
	ref := &zzBatch{}
	for i := 0; i < want; i++ {
		deleteStateIndexBlock(ident, ref, descs[i].id)
	}
	if want == n {
		deleteStateIndex(ident, ref)
	} else if want > 0 {
		var rest []byte
		for _, d := range descs[want:] {
			rest = append(rest, d.encode()...)
		}
		writeStateIndex(ident, ref, rest)
	}
	zzAssert(len(batch.dels) == len(ref.dels) && len(batch.puts) == len(ref.puts), "nothing else is deleted or written")
	for i := range ref.dels {
		zzAssert(zzBytesEq(batch.dels[i], ref.dels[i]), "the pruned blocks (and the metadata, if nothing remains) are deleted")
	}
	for i := range ref.puts {
		zzAssert(zzBytesEq(batch.puts[i][0], ref.puts[i][0]) && zzBytesEq(batch.puts[i][1], ref.puts[i][1]), "the metadata keeps exactly the remaining blocks")
	}
	if want > 0 && want < n {
		zzReach("partly-pruned")
	} else if want == n {
		zzReach("all-pruned")
	} else {
		zzReach("nothing-pruned")
	}
}

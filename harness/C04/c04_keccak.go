package keccak

import "unsafe"

// Harnesses for C04 (Keccak-256 sponge layer), package crypto/keccak.
//
// The permutation Keccak-f[1600] is an uninterpreted function (on amd64 it is
// assembly); the sponge construction around it is the code under test. The
// reference below is FIPS-202 section 4 / 5.1 with Keccak's legacy 0x01
// domain byte: pad10*1 to a multiple of the rate (136 bytes), XOR each block
// into the state, permute, output the first 32 bytes.

const zzRate = 136

func zzRefKeccak256(m []byte) [32]byte {
	var st [200]byte
	n := len(m)
	padded := make([]byte, (n/zzRate+1)*zzRate)
	copy(padded, m)
	padded[n] ^= 0x01
	padded[len(padded)-1] ^= 0x80
	for off := 0; off < len(padded); off += zzRate {
		for k := 0; k < zzRate; k++ {
			st[k] ^= padded[off+k]
		}
		keccakF1600((*[25]uint64)(unsafe.Pointer(&st)))
	}
	var out [32]byte
	copy(out[:], st[:32])
	return out
}

// zzMsg returns a message of length L (case-split over the lengths of interest).
func zzMsg() []byte {
	return zzNondetBytesN(zzLen())
}

// zzLen picks the message length: either any value in [0, MAXLEN] (LENS == 0)
// or one of the block-boundary lengths.
func zzLen() int {
	if zzBound("LENS") == 0 {
		return zzChoice(zzBound("MAXLEN") + 1)
	}
	if zzBound("LENS") == 2 {
		lens := [...]int{136, 137, 272}
		return lens[zzChoice(len(lens))]
	}
	lens := [...]int{0, 1, 135, 136, 137, 271, 272, 273}
	return lens[zzChoice(len(lens))]
}

func zzH_C04_oneshot() {
	m := zzMsg()
	h := NewLegacyKeccak256()
	h.Write(m)
	got := h.Sum(nil)
	want := zzRefKeccak256(m)
	zzAssert(len(got) == 32, "digest length")
	zzAssert(zzBytesEq(got, want[:]), "Write(m); Sum(nil) equals the FIPS-202 sponge reference")
	// Sum appends to its argument and does not disturb the state
	pre := []byte{1, 2, 3}
	got2 := h.Sum(pre)
	zzAssert(zzBytesEq(got2[3:], want[:]), "Sum is repeatable and appends")
	zzAssert(zzAll(got2[0] == 1, got2[1] == 2, got2[2] == 3), "Sum keeps the prefix")
	zzReach("oneshot")
	zzObserve("digest", got)
}

func zzH_C04_chunking() {
	m := zzMsg()
	L := len(m)
	var i, j int
	if zzBound("SPLITS") == 1 {
		// split points at and around the block boundaries and the ends
		pts := [...]int{0, 1, 135, 136, 137, 271, 272}
		i = pts[zzChoice(len(pts))]
		j = pts[zzChoice(len(pts))]
		zzAssume(i <= j && j <= L)
	} else {
		i = zzChoice(L + 1)
		j = i + zzChoice(L-i+1)
	}
	want := zzRefKeccak256(m)

	h := NewLegacyKeccak256()
	h.Write(m[:i])
	mid := h.Sum(nil) // a Sum between writes must not disturb the absorption
	wantMid := zzRefKeccak256(m[:i])
	zzAssert(zzBytesEq(mid, wantMid[:]), "intermediate Sum is the digest of the prefix")
	h.Write(m[i:j])
	h.Write(m[j:])
	got := h.Sum(nil)
	zzAssert(zzBytesEq(got, want[:]), "three-way chunked writes give the one-shot digest")

	// Reset, then hash again with a different split
	h.Reset()
	h.Write(m[:j])
	h.Write(m[j:])
	var out [32]byte
	h.(*state).Read(out[:16])
	h.(*state).Read(out[16:])
	zzAssert(zzBytesEq(out[:], want[:]), "Reset + re-hash + Read in two pieces gives the same digest")
	zzExpectPanic("Write after Read", func() { h.Write([]byte{0}) })
	zzReach("chunked")
	zzObserve("digest", got)
}

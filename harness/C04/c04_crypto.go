package crypto

import (
	"github.com/ethereum/go-ethereum/crypto/keccak"
)

// C04, package crypto: the pooled helpers equal the plain sponge on the
// concatenated input, also when the pool hands back a used state.

func zzOneShot(parts ...[]byte) []byte {
	h := keccak.NewLegacyKeccak256()
	for _, p := range parts {
		h.Write(p)
	}
	return h.Sum(nil)
}

func zzH_C04_pooled() {
	na := zzChoice(zzBound("A") + 1)
	nb := zzChoice(zzBound("B") + 1)
	a := zzNondetBytesN(na)
	b := zzNondetBytesN(nb)
	// first use leaves a dirty state in the pool
	warm := zzNondetBytesN(zzBound("W"))
	Keccak256(warm)
	got := Keccak256(a, b)
	want := zzOneShot(append(append([]byte{}, a...), b...))
	zzAssert(zzBytesEq(got, want), "Keccak256(a, b) equals the sponge on a||b, with a fresh or a reused pooled state")
	h := Keccak256Hash(a, b)
	zzAssert(zzBytesEq(h[:], want), "Keccak256Hash(a, b) equals Keccak256(a, b)")
	zzReach("pooled")
	zzObserve("digest", got)
}

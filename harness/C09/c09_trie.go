package trie

// Harness for C09 (range proofs), package trie. Shares the generators of C06 and the proof set of C08.

// A trie of KEYS ascending keys, a contiguous run [lo, hi) of its entries proved by the honest edge
// proofs of the run's first and last key: verification succeeds and reports "more" exactly when
// entries lie beyond the run; a run with its first or an interior entry dropped, or one value altered, is rejected.
func zzH_C09_range() {
	n := zzBound("KEYS")
	kl := zzBound("KEYLEN")
	keys, vals := make([][]byte, n), make([][]byte, n)
	t := NewEmpty(nil)
	for i := range keys {
		keys[i], vals[i] = zzKey(kl), zzVal()
		if i > 0 {
			zzAssume(bytesLess(keys[i-1], keys[i]))
		}
		t.Update(keys[i], vals[i])
	}
	root := t.Hash()
	lo := zzChoice(n)
	hi := lo + 1 + zzChoice(n-lo)
	db := &zzProofDB{}
	zzAssert(t.Prove(keys[lo], db) == nil && t.Prove(keys[hi-1], db) == nil, "edge proofs can be produced")
	runK, runV := keys[lo:hi], vals[lo:hi]
	more, err := VerifyRangeProof(root, keys[lo], runK, runV, db)
	zzAssert(err == nil, "the true run with honest edge proofs verifies")
	zzAssert(more == (hi < n), "more entries are reported exactly when the trie holds keys beyond the run")
	zzReach("verified")
	switch zzChoice(2) {
	case 0:
		// drop the first or an interior entry, keeping the start key and the edge proofs (dropping
		// the last entry would leave another true run)
		if hi-lo < 2 {
			return
		}
		d := zzChoice(hi - lo - 1)
		var k2, v2 [][]byte
		for i := range runK {
			if i != d {
				k2, v2 = append(k2, runK[i]), append(v2, runV[i])
			}
		}
		_, err2 := VerifyRangeProof(root, keys[lo], k2, v2, db)
		zzAssert(err2 != nil, "a run with an entry dropped is rejected")
		zzReach("dropped")
	default:
		// alter one value
		d := zzChoice(hi - lo)
		v2 := append([][]byte{}, runV...)
		alt := append([]byte{}, runV[d]...)
		alt[0] ^= 1
		zzAssume(alt[0] >= 0x80)
		v2[d] = alt
		_, err2 := VerifyRangeProof(root, keys[lo], runK, v2, db)
		zzAssert(err2 != nil, "a run with an altered value is rejected")
		zzReach("altered")
	}
}

package state

import (
	"github.com/ethereum/go-ethereum/common"
	"github.com/ethereum/go-ethereum/core/tracing"
	"github.com/ethereum/go-ethereum/core/types"
	"github.com/ethereum/go-ethereum/core/types/bal"
	"github.com/ethereum/go-ethereum/params"
	"github.com/holiman/uint256"
)

// Harness shared by C13 (journal / snapshot / revert against a reference account model)
// and C15 (block access list records exactly the net balance and nonce changes of a
// transaction), package core/state.
//
// The StateDB is assembled directly with its accounts already loaded (no database,
// no trie): every operation below stays within the in-memory objects and the journal.

const zzAccounts = 2

type zzModel struct {
	bal    [zzAccounts]uint256.Int
	nonce  [zzAccounts]uint64
	refund uint64
	tval   common.Hash // transient storage of account 0, slot 1
	inAL   [zzAccounts]bool
	st     [zzAccounts]common.Hash // storage slot 1: current value
	cst    [zzAccounts]common.Hash // ... and its value at the start of the transaction
	newC   [zzAccounts]bool        // contract created in this transaction (EIP-6780)
}

var zzSlotKey = common.Hash{31: 1}

func zzHashVal() (h common.Hash) {
	h[31] = zzNondetU8()
	return
}

func zzWord() uint256.Int { return uint256.Int{zzNondetU64(), zzNondetU64(), 0, 0} }

func zzNewState() (*StateDB, [zzAccounts]common.Address, zzModel) {
	s := &StateDB{
		stateObjects:         map[common.Address]*stateObject{},
		stateObjectsDestruct: map[common.Address]*stateObject{},
		mutations:            map[common.Address]*mutation{},
		journal:              newJournal(),
		accessList:           newAccessList(),
		transientStorage:     newTransientStorage(),
		stateAccessList:      bal.NewConstructionBlockAccessList(),
		blockAccessIndex:     7,
	}
	var addrs [zzAccounts]common.Address
	var m zzModel
	for i := range addrs {
		addrs[i] = common.Address{19: byte(0x10 + i)}
		m.bal[i], m.nonce[i] = zzWord(), zzNondetU64()
		b := m.bal[i]
		acct := &types.StateAccount{Nonce: m.nonce[i], Balance: &b, Root: types.EmptyRootHash, CodeHash: types.EmptyCodeHash[:]}
		obj := newObject(s, addrs[i], acct)
		// slot 1 was already read in this block: its committed value is cached (no database access)
		m.st[i] = zzHashVal()
		m.cst[i] = m.st[i]
		obj.originStorage[zzSlotKey] = m.st[i]
		s.stateObjects[addrs[i]] = obj
	}
	return s, addrs, m
}

func zzEqU(a *uint256.Int, b uint256.Int) bool {
	return zzAll(a[0] == b[0], a[1] == b[1], a[2] == b[2], a[3] == b[3])
}

// zzReads: every observable read agrees with the model.
func zzReads(s *StateDB, addrs [zzAccounts]common.Address, m *zzModel) {
	for i, a := range addrs {
		zzAssert(zzEqU(s.GetBalance(a), m.bal[i]), "balance read equals the model")
		zzAssert(s.GetNonce(a) == m.nonce[i], "nonce read equals the model")
		zzAssert(s.AddressInAccessList(a) == m.inAL[i], "access-list membership equals the model")
	}
	for i, a := range addrs {
		zzAssert(s.GetState(a, zzSlotKey) == m.st[i], "storage read equals the model")
		zzAssert(s.GetCommittedState(a, zzSlotKey) == m.cst[i], "committed storage read is the value at the start of the transaction")
		zzAssert(s.IsNewContract(a) == m.newC[i], "created-in-this-transaction flag equals the model")
	}
	zzAssert(s.GetRefund() == m.refund, "refund counter equals the model")
	zzAssert(s.GetTransientState(addrs[0], common.Hash{31: 1}) == m.tval, "transient storage read equals the model")
}

// zzScript runs K symbolic operations (with nested snapshots and reverts) on the real
// StateDB and on the model, checking every read after every step.
func zzScript(s *StateDB, addrs [zzAccounts]common.Address, m *zzModel, K int) (txStart zzModel) {
	txStart = *m
	type snap struct {
		id int
		m  zzModel
	}
	var snaps []snap
	for step := 0; step < K; step++ {
		i := 0
		op := zzChoice(zzBound("MENU")) // quick tiers use the first few operations only
		if op <= 1 || op == 4 || op == 5 || op == 8 || op == 9 || op == 10 {
			i = zzChoice(zzAccounts)
		}
		switch op {
		case 0:
			v := zzWord()
			s.SetBalance(addrs[i], &v, tracing.BalanceChangeUnspecified)
			m.bal[i] = v
		case 1:
			n := zzNondetU64()
			s.SetNonce(addrs[i], n, tracing.NonceChangeUnspecified)
			m.nonce[i] = n
		case 2:
			snaps = append(snaps, snap{s.Snapshot(), *m})
			zzReach("snapshot")
		case 3:
			if len(snaps) == 0 {
				continue
			}
			k := zzChoice(len(snaps))
			s.RevertToSnapshot(snaps[k].id)
			*m = snaps[k].m
			snaps = snaps[:k]
			zzReach("revert")
		case 4:
			v := zzWord()
			s.AddBalance(addrs[i], &v, tracing.BalanceChangeUnspecified)
			m.bal[i] = *new(uint256.Int).Add(&m.bal[i], &v)
		case 5:
			v := zzWord()
			s.SubBalance(addrs[i], &v, tracing.BalanceChangeUnspecified)
			m.bal[i] = *new(uint256.Int).Sub(&m.bal[i], &v)
		case 6:
			g := zzNondetU64()
			zzAssume(g <= 1<<40)
			s.AddRefund(g)
			m.refund += g
		case 7:
			var v common.Hash
			v[31] = zzNondetU8()
			s.SetTransientState(addrs[0], common.Hash{31: 1}, v)
			m.tval = v
		case 8:
			s.AddAddressToAccessList(addrs[i])
			m.inAL[i] = true
		case 9:
			v := zzHashVal()
			prev := s.SetState(addrs[i], zzSlotKey, v)
			zzAssert(prev == m.st[i], "SetState hands back the previous value")
			m.st[i] = v
		case 10:
			// contract deployment as evm.create performs it from Spurious Dragon on: the creation
			// flag is set together with the nonce bump (CreateContract alone journals no tracked
			// account mutation, so finalisation would not visit the account)
			s.CreateContract(addrs[i])
			s.SetNonce(addrs[i], 1, tracing.NonceChangeNewContract)
			m.newC[i] = true
			m.nonce[i] = 1
		default:
			// transaction boundary (pre-Amsterdam rules): the journal is closed, storage written in
			// the transaction becomes the committed view of the next one, creation flags expire
			zzAssume(m.nonce[0] != 0 && m.nonce[1] != 0) // no account is empty (removal of empty accounts is C15's subject)
			s.Finalise(params.Rules{IsEIP158: true})
			snaps = nil
			m.refund = 0
			for k := range addrs {
				m.cst[k] = m.st[k]
				m.newC[k] = false
			}
			txStart = *m
			zzReach("boundary")
		}
		zzReads(s, addrs, m)
	}
	return txStart
}

// C13: reads under nested snapshots/reverts equal the reference model, and the journal's
// per-account bookkeeping mirrors the live entries.
func zzH_C13_journal() {
	s, addrs, m := zzNewState()
	m0 := zzScript(s, addrs, &m, zzBound("K")) // the model at the start of the current transaction
	// per-account mutation counts = number of live journal entries of that account and kind
	for i, a := range addrs {
		var want journalMutationCounts
		for _, e := range s.journal.entries {
			if addr, kind, ok := e.mutation(); ok && addr == a {
				want[kind]++
			}
		}
		st := s.journal.mutations[a]
		if want == (journalMutationCounts{}) {
			zzAssert(st == nil, "an account without live entries is not tracked")
			continue
		}
		zzAssert(st != nil && st.counts == want, "mutation counts mirror the live journal entries")
		zzAssert(st.balanceSet == (want[journalMutationKindBalance] > 0), "a balance original is held exactly while balance entries are live")
		zzAssert(st.nonceSet == (want[journalMutationKindNonce] > 0), "a nonce original is held exactly while nonce entries are live")
		if st.balanceSet {
			zzAssert(zzEqU(st.balance, m0.bal[i]), "the held balance original is the value at the start of the transaction")
		}
		if st.nonceSet {
			zzAssert(st.nonce == m0.nonce[i], "the held nonce original is the value at the start of the transaction")
		}
		zzReach("tracked")
	}
	// reverting everything restores the start of the transaction
	if len(s.journal.validRevisions) > 0 {
		s.RevertToSnapshot(s.journal.validRevisions[0].id)
	}
}

// C15: after any script, recording the access-list changes (as finalisation does) yields
// exactly the accounts whose balance / nonce differ between start and end of the transaction,
// with the end values - nothing for reverted or net-zero changes.
func zzH_C15_net_changes() {
	s, addrs, m := zzNewState()
	// an earlier transaction scope was opened and abandoned (executed, then rolled back without
	// finalisation, as a block builder does with a transaction it drops): it read a bystander account
	rules := params.Rules{IsEIP158: true, IsBerlin: true, IsEIP2929: true, IsShanghai: true, IsAmsterdam: true}
	bystander := common.Address{19: 0x77}
	one := uint256.Int{1}
	s.stateObjects[bystander] = newObject(s, bystander, &types.StateAccount{Nonce: 1, Balance: &one, Root: types.EmptyRootHash, CodeHash: types.EmptyCodeHash[:]})
	s.Prepare(rules, addrs[0], common.Address{}, nil, nil, nil)
	snap := s.Snapshot()
	s.SetNonce(bystander, 9, tracing.NonceChangeUnspecified)
	s.RevertToSnapshot(snap)
	// the transaction under test
	s.Prepare(rules, addrs[0], common.Address{}, nil, nil, nil)
	s.blockAccessIndex = 7
	m.inAL[0] = true // Prepare warms the sender
	m0 := zzScript(s, addrs, &m, zzBound("K")) // the model at the start of the current transaction
	// the real end-of-transaction step (Amsterdam rules, EIP-158 on): finalises or removes every
	// touched account, records its net changes and hands back the transaction's access list
	list := s.finaliseAmsterdam(rules)
	zzAssert(list.Accounts[bystander] == nil, "an account touched only by an abandoned transaction does not appear in this transaction's list")
	zzAssert(s.journal.length() == 0 && s.GetRefund() == 0, "finalisation closes the transaction's journal and refund counter")
	for i, a := range addrs {
		gone := m.nonce[i] == 0 && m.bal[i].IsZero() // an account left empty is removed (EIP-161) ...
		touched := false
		_ = touched
		if s.stateObjects[a] == nil {
			zzAssert(gone, "only an empty account is removed at finalisation")
			zzReach("removed")
		}
		acc := list.Accounts[a]
		var gotBal *uint256.Int
		var gotNonce uint64
		hasNonce := false
		if acc != nil {
			gotBal = acc.BalanceChanges[7]
			gotNonce, hasNonce = acc.NonceChanges[7]
			zzAssert(len(acc.BalanceChanges) <= 1 && len(acc.NonceChanges) <= 1, "changes are recorded under this transaction's index only")
		}
		balChanged := !zzEqU(&m.bal[i], m0.bal[i])
		zzAssert((gotBal != nil) == balChanged, "a balance change is recorded iff the balance differs between start and end of the transaction")
		if gotBal != nil {
			zzAssert(zzEqU(gotBal, m.bal[i]), "the recorded balance is the end-of-transaction balance")
			zzReach("balance-recorded")
		}
		zzAssert(hasNonce == (m.nonce[i] != m0.nonce[i]), "a nonce change is recorded iff the nonce differs between start and end of the transaction")
		if hasNonce {
			zzAssert(gotNonce == m.nonce[i], "the recorded nonce is the end-of-transaction nonce")
			zzReach("nonce-recorded")
		}
	}
}

package rlp

import (
	"math/big"
	"github.com/holiman/uint256"
)

// Harnesses for C01 (RLP canonical decoding), package rlp.
//
// Three implementations are played against each other on the same symbolic
// buffer: the raw splitters (raw.go), the Stream decoder (decode.go) reading
// from the package's own sliceReader, and the encoder primitives
// (encbuffer.go / encode.go). "Canonical" is asserted as: whatever a decoder
// accepts, re-encoding the decoded content reproduces exactly the consumed
// bytes.

func zzStream(b []byte) (*Stream, *sliceReader) {
	sr := sliceReader(b)
	return NewStream(&sr, uint64(len(b))), &sr
}

func zzEncBytes(content []byte) []byte {
	w := new(encBuffer)
	w.writeBytes(content)
	return w.makeBytes()
}

// kind_agree + canon_string + canon_list_header
func zzH_C01_kind_agree() {
	b := zzNondetBytes(zzBound("N"))
	k, content, rest, err := Split(b)

	s, sr := zzStream(b)
	kind, size, kerr := s.Kind()
	acceptS := false
	var bs []byte
	var lsize uint64
	if kerr == nil {
		if kind == List {
			var e error
			lsize, e = s.List()
			acceptS = e == nil
		} else {
			var e error
			bs, e = s.Bytes()
			acceptS = e == nil
		}
	}
	_ = size
	zzAssert(acceptS == (err == nil), "raw Split and Stream accept exactly the same inputs")
	if err != nil {
		zzReach("rejected")
		zzObserve("reject", true)
		return
	}
	consumed := b[:len(b)-len(rest)]
	zzAssert(len(content) <= len(consumed), "content within consumed bytes")
	if k == List {
		zzReach("list")
		zzAssert(kind == List, "kinds agree (list)")
		zzAssert(lsize == uint64(len(content)), "list sizes agree")
		// header is canonical: puthead reproduces it
		var hb [9]byte
		n := puthead(hb[:], 0xC0, 0xF7, uint64(len(content)))
		zzAssert(zzBytesEq(hb[:n], consumed[:len(consumed)-len(content)]), "accepted list header is the canonical header")
		zzAssert(ListSize(uint64(len(content))) == uint64(len(consumed)), "ListSize equals the encoded length")
		zzAssert(zzBytesEq(*sr, b[len(consumed)-len(content):]), "stream is positioned at the list content")
	} else {
		zzReach("string")
		zzAssert(kind != List, "kinds agree (string)")
		zzAssert((k == Byte) == (kind == Byte), "kinds agree (byte vs string)")
		zzAssert(zzBytesEq(bs, content), "decoded contents agree")
		zzAssert(zzBytesEq(zzEncBytes(content), consumed), "accepted string is the canonical encoding of its content")
		zzAssert(BytesSize(content) == uint64(len(consumed)), "BytesSize equals the encoded length")
		zzAssert(zzBytesEq(*sr, rest), "stream consumed exactly the value")
	}
	// Raw() hands back exactly the consumed bytes for every value Split accepts
	s2, _ := zzStream(b)
	raw, rerr := s2.Raw()
	zzAssert(rerr == nil, "Stream.Raw accepts what Split accepts")
	zzAssert(zzBytesEq(raw, consumed), "Stream.Raw returns exactly the encoded value")
	zzObserve("consumed", len(consumed))
	zzObserve("content", content)
}

func zzH_C01_uint_agree() {
	b := zzNondetBytes(zzBound("N"))
	x, rest, err := SplitUint64(b)
	s, sr := zzStream(b)
	y, err2 := s.Uint64()
	zzAssert((err == nil) == (err2 == nil), "SplitUint64 and Stream.Uint64 accept exactly the same inputs")
	// narrower readers
	s32, _ := zzStream(b)
	y32, e32 := s32.Uint32()
	s16, _ := zzStream(b)
	y16, e16 := s16.Uint16()
	s8, _ := zzStream(b)
	y8, e8 := s8.Uint8()
	sb, _ := zzStream(b)
	yb, eb := sb.Bool()
	if err != nil {
		zzReach("rejected")
		zzAssert(zzAll(e32 != nil, e16 != nil, e8 != nil, eb != nil), "narrower integer readers reject what Uint64 rejects")
		zzObserve("reject", true)
		return
	}
	zzReach("accepted")
	zzAssert(x == y, "decoded integers agree")
	consumed := b[:len(b)-len(rest)]
	zzAssert(zzBytesEq(AppendUint64(nil, x), consumed), "accepted integer is its canonical encoding (AppendUint64)")
	w := new(encBuffer)
	w.writeUint64(x)
	zzAssert(zzBytesEq(w.makeBytes(), consumed), "accepted integer is its canonical encoding (writeUint64)")
	zzAssert(IntSize(x) == len(consumed), "IntSize equals the encoded length")
	zzAssert(zzBytesEq(*sr, rest), "stream consumed exactly the integer")
	zzAssert((e32 == nil) == (x < 1<<32), "Uint32 accepts iff the value fits")
	zzAssert((e16 == nil) == (x < 1<<16), "Uint16 accepts iff the value fits")
	zzAssert((e8 == nil) == (x < 1<<8), "Uint8 accepts iff the value fits")
	zzAssert((eb == nil) == (x <= 1), "Bool accepts iff the value is 0 or 1")
	if e32 == nil {
		zzAssert(uint64(y32) == x, "Uint32 value")
	}
	if e16 == nil {
		zzAssert(uint64(y16) == x, "Uint16 value")
	}
	if e8 == nil {
		zzAssert(uint64(y8) == x, "Uint8 value")
	}
	if eb == nil {
		zzAssert(yb == (x == 1), "Bool value")
	}
	zzObserve("x", x)
}

func zzH_C01_uint_forward() {
	x := zzNondetU64()
	enc := AppendUint64(nil, x)
	y, rest, err := SplitUint64(enc)
	zzAssert(err == nil, "SplitUint64 accepts AppendUint64 output")
	zzAssert(y == x, "SplitUint64(AppendUint64(x)) == x")
	zzAssert(len(rest) == 0, "nothing left over")
	s, _ := zzStream(enc)
	z, err2 := s.Uint64()
	zzAssert(err2 == nil, "Stream.Uint64 accepts AppendUint64 output")
	zzAssert(z == x, "Stream.Uint64(AppendUint64(x)) == x")
	w := new(encBuffer)
	w.writeUint64(x)
	zzAssert(zzBytesEq(w.makeBytes(), enc), "writeUint64 == AppendUint64")
	zzAssert(IntSize(x) == len(enc), "IntSize")
	// appending to a non-empty prefix keeps the prefix
	pre := []byte{0xAA, 0xBB}
	enc2 := AppendUint64(pre, x)
	zzAssert(zzBytesEq(enc2[2:], enc), "AppendUint64 appends")
	zzReach("forward")
	zzObserve("enc", enc)
}

func zzH_C01_head_codec() {
	size := zzNondetU64()
	var hb [9]byte
	n := puthead(hb[:], 0x80, 0xB7, size)
	zzAssert(n == headsize(size), "puthead writes headsize bytes")
	if size < 56 {
		zzReach("short")
		zzAssert(n == 1, "short header is one byte")
		zzAssert(hb[0] == 0x80+byte(size), "short header tag")
	} else {
		zzReach("long")
		zzAssert(hb[0] == 0xB7+byte(n-1), "long header tag encodes the length of the length")
		got, err := readSize(hb[1:n], byte(n-1))
		zzAssert(err == nil, "readSize accepts puthead output")
		zzAssert(got == size, "readSize(puthead(size)) == size")
		zzAssert(hb[1] != 0, "no leading zero in the size")
	}
	// putint / intsize
	i := zzNondetU64()
	var ib [8]byte
	m := putint(ib[:], i)
	zzAssert(m == intsize(i), "putint writes intsize bytes")
	zzAssert(m >= 1, "at least one byte")
	zzAssert(m <= 8, "at most eight bytes")
	var back uint64
	for j := 0; j < m; j++ {
		back = back<<8 | uint64(ib[j])
	}
	zzAssert(back == i, "putint is big-endian")
	if i != 0 {
		zzAssert(ib[0] != 0, "putint has no leading zero")
	}
	zzObserve("n", n)
	zzObserve("m", m)
}

func zzH_C01_u256() {
	b := zzNondetBytes(zzBound("N"))
	s, sr := zzStream(b)
	// the target is reused: whatever it held before must not survive a successful decode
	v := uint256.Int{zzNondetU64(), zzNondetU64(), zzNondetU64(), zzNondetU64()}
	err := s.ReadUint256(&v)
	// compare with the raw string splitter
	content, rest, serr := SplitString(b)
	if err != nil {
		zzReach("rejected")
		// if the raw splitter accepts the string, the rejection must be a canonicality or size reason
		if serr == nil {
			zzAssert(zzAny(len(content) > 32, len(content) > 0 && content[0] == 0), "ReadUint256 rejects a well-formed string only for size or leading zero")
		}
		zzObserve("reject", true)
		return
	}
	zzReach("accepted")
	zzAssert(serr == nil, "raw splitter accepts what ReadUint256 accepts")
	consumed := b[:len(b)-len(rest)]
	w := new(encBuffer)
	w.writeUint256(&v)
	zzAssert(zzBytesEq(w.makeBytes(), consumed), "accepted uint256 is its canonical encoding")
	zzAssert(zzBytesEq(*sr, rest), "stream consumed exactly the integer")
	// value is the big-endian content
	var be [32]byte
	copy(be[32-len(content):], content)
	want := new(uint256.Int).SetBytes32(be[:])
	zzAssert(v == *want, "value is the big-endian content")
	zzObserve("v0", v[0])
}

// decodeBigInt (arbitrary-size integers): accepts exactly the strings without a leading zero
// that are not a wrapped single byte, and yields their big-endian value - also for contents
// longer than the 32-byte scratch buffer.
func zzH_C01_bigint() {
	b := zzNondetBytes(zzBound("BN"))
	s, sr := zzStream(b)
	x := zzNondetBig(64) // reused target
	err := s.decodeBigInt(x)
	content, rest, serr := SplitString(b)
	if err != nil {
		zzReach("rejected")
		if serr == nil {
			zzAssert(len(content) > 0 && content[0] == 0, "decodeBigInt rejects a well-formed string only for a leading zero")
		}
		return
	}
	zzReach("accepted")
	zzAssert(serr == nil, "raw splitter accepts what decodeBigInt accepts")
	zzAssert(len(content) == 0 || content[0] != 0, "accepted integer has no leading zero")
	zzAssert(zzBigEq(x, new(big.Int).SetBytes(content)), "value is the big-endian content")
	zzAssert(zzBytesEq(*sr, rest), "stream consumed exactly the integer")
	if len(content) > 32 {
		zzReach("long")
	}
}

// A list and its elements: the streaming decoder (List, Raw per element, ListEnd), the raw
// element counter and the list iterator see the same element boundaries and accept the same
// lists; the elements concatenate to the list content.
func zzH_C01_list_walk() {
	b := zzNondetBytes(zzBound("LN"))
	content, rest, lerr := SplitList(b)
	s, _ := zzStream(b)
	_, serr := s.List()
	zzAssert((lerr == nil) == (serr == nil), "raw and streaming decoder accept the same list headers")
	if lerr != nil {
		zzReach("not-a-list")
		return
	}
	_ = rest
	// streaming walk
	var elems [][]byte
	walkOK := true
	for s.MoreDataInList() {
		// strings are read as values (Bytes validates canonicality); lists are taken whole (Raw
		// deliberately does not look inside: "the decoder does not verify whether the content of
		// RawValues is valid RLP"), which is also all CountValues and the iterator look at
		kind, _, err := s.Kind()
		var raw []byte
		if err == nil {
			if kind == List {
				raw, err = s.Raw()
			} else {
				var v []byte
				v, err = s.Bytes()
				raw = zzEncBytes(v)
			}
		}
		if err != nil {
			walkOK = false
			break
		}
		elems = append(elems, raw)
		if len(elems) > zzBound("LN") {
			zzAssert(false, "more elements than bytes")
		}
	}
	if walkOK {
		zzAssert(s.ListEnd() == nil, "after the last element the list ends cleanly")
	}
	// raw counter
	cnt, cerr := CountValues(content)
	zzAssert((cerr == nil) == walkOK, "CountValues accepts exactly the lists whose elements the stream accepts")
	// iterator
	it, ierr := NewListIterator(RawValue(b))
	zzAssert(ierr == nil, "the iterator accepts the list header")
	k := 0
	for it.Next() {
		if it.Err() != nil {
			break
		}
		if k < len(elems) {
			zzAssert(zzBytesEq(it.Value(), elems[k]), "iterator and stream agree on the element")
		}
		k++
	}
	zzAssert((it.Err() == nil) == walkOK, "the iterator fails exactly on the lists the stream rejects")
	if walkOK {
		zzAssert(cnt == len(elems) && k == len(elems), "element counts agree")
		var cat []byte
		for _, e := range elems {
			cat = append(cat, e...)
		}
		zzAssert(zzBytesEq(cat, content), "the elements concatenate to the list content")
		if len(elems) >= 2 {
			zzReach("several")
		} else {
			zzReach("short")
		}
	} else {
		zzReach("bad-element")
	}
}

func zzH_C01_u256_forward() {
	z := uint256.Int{zzNondetU64(), zzNondetU64(), zzNondetU64(), zzNondetU64()}
	w := new(encBuffer)
	w.writeUint256(&z)
	enc := w.makeBytes()
	s, _ := zzStream(enc)
	var v uint256.Int
	err := s.ReadUint256(&v)
	zzAssert(err == nil, "ReadUint256 accepts writeUint256 output")
	zzAssert(v == z, "ReadUint256(writeUint256(z)) == z")
	_, rest, serr := SplitString(enc)
	zzAssert(serr == nil, "raw splitter accepts writeUint256 output")
	zzAssert(len(rest) == 0, "single value")
	zzReach("forward")
	zzObserve("enc", enc)
}

package discover

import (
	"github.com/ethereum/go-ethereum/common/mclock"
	"github.com/ethereum/go-ethereum/log"
	"github.com/ethereum/go-ethereum/p2p/enode"
	"github.com/ethereum/go-ethereum/p2p/netutil"
)

// Harnesses for C46 (closest-node kernels of the discovery table), package p2p/discover.

func zzID() (id enode.ID) {
	copy(id[:], zzNondetBytesN(len(id)))
	return id
}

type zzTransport struct{ self *enode.Node }

func (t *zzTransport) Self() *enode.Node                             { return t.self }
func (t *zzTransport) RequestENR(*enode.Node) (*enode.Node, error)   { return nil, nil }
func (t *zzTransport) lookupRandom() []*enode.Node                   { return nil }
func (t *zzTransport) lookupSelf() []*enode.Node                     { return nil }
func (t *zzTransport) ping(*enode.Node) (seq uint64, err error)      { return 0, nil }

func zzTable(self enode.ID) *Table {
	tab := &Table{net: &zzTransport{self: enode.ZZNodeWithID(self)}}
	for i := range tab.buckets {
		tab.buckets[i] = &bucket{index: i}
	}
	return tab
}

// nodesByDistance.push: one insertion into a sorted closest-set.
func zzH_C46_push_step() {
	N := zzBound("N")
	target := zzID()
	n := zzChoice(N + 1)
	maxElems := 1 + zzChoice(N)
	zzAssume(n <= maxElems)
	h := nodesByDistance{target: target}
	ids := make([]enode.ID, n)
	for i := range ids {
		ids[i] = zzID()
		h.entries = append(h.entries, enode.ZZNodeWithID(ids[i]))
	}
	for i := 0; i+1 < n; i++ {
		zzAssume(enode.ZZSpecDistCmp(target, ids[i], ids[i+1]) <= 0) // the list is kept sorted
	}
	x := zzID()
	h.push(enode.ZZNodeWithID(x), maxElems)

	want := n + 1
	if want > maxElems {
		want = maxElems
	}
	zzAssert(len(h.entries) == want, "push grows the list by one up to the limit")
	// x goes after every entry that is not farther than x (stable), the rest shifts down,
	// the farthest entry falls off when the list is full
	k := uint64(0)
	for i := 0; i < n; i++ {
		k += zzIte(enode.ZZSpecDistCmp(target, ids[i], x) <= 0, 1, 0)
	}
	for j := 0; j < len(h.entries); j++ {
		e := h.entries[j].ID()
		ok := zzAll(uint64(j) == k, e == x)
		if j < n {
			ok = zzAny(ok, zzAll(uint64(j) < k, e == ids[j]))
		}
		if j >= 1 {
			ok = zzAny(ok, zzAll(uint64(j) > k, e == ids[j-1]))
		}
		zzAssert(ok, "entries are the closest ones in distance order")
	}
	for j := 0; j+1 < len(h.entries); j++ {
		zzAssert(enode.ZZSpecDistCmp(target, h.entries[j].ID(), h.entries[j+1].ID()) <= 0, "list stays sorted by distance")
	}
	zzReach("pushed")
	zzObserve("len", int64(len(h.entries)))
}

// findnodeByID on a hand-built table: the nresults closest (verified, if any is) nodes, in order.
func zzH_C46_findnode() {
	N := zzBound("NODES")
	self, target := zzID(), zzID()
	tab := zzTable(self)
	n := 1 + zzChoice(N)
	ids := make([]enode.ID, n)
	live := make([]bool, n)
	for i := 0; i < n; i++ {
		ids[i] = zzID()
		live[i] = zzNondetBool()
		for j := 0; j < i; j++ {
			zzAssume(ids[i] != ids[j]) // the table holds distinct nodes
		}
		b := tab.buckets[[...]int{0, 7, 16}[i%3]]
		b.entries = append(b.entries, &tableNode{Node: enode.ZZNodeWithID(ids[i]), isValidatedLive: live[i]})
	}
	nresults := 1 + zzChoice(N)
	preferLive := zzNondetBool()
	res := tab.findnodeByID(target, nresults, preferLive)

	anyLive := false
	for i := 0; i < n; i++ {
		anyLive = zzAny(anyLive, live[i])
	}
	onlyLive := zzAll(preferLive, anyLive)
	// candidate i is eligible iff it is verified or verified nodes are not required
	cands := uint64(0)
	for i := 0; i < n; i++ {
		cands += zzIte(zzAny(!onlyLive, live[i]), 1, 0)
	}
	wantLen := zzIte(cands < uint64(nresults), cands, uint64(nresults))
	zzAssert(uint64(len(res.entries)) == wantLen, "returns min(nresults, eligible nodes) nodes")
	zzAssert(res.target == target, "target recorded")
	for j := 0; j < len(res.entries); j++ {
		e := res.entries[j].ID()
		isCand := false
		for i := 0; i < n; i++ {
			isCand = zzAny(isCand, zzAll(e == ids[i], zzAny(!onlyLive, live[i])))
		}
		zzAssert(isCand, "every result is an eligible table node")
		if j+1 < len(res.entries) {
			zzAssert(enode.ZZSpecDistCmp(target, e, res.entries[j+1].ID()) < 0, "results are in strictly ascending distance")
		}
	}
	if len(res.entries) > 0 {
		last := res.entries[len(res.entries)-1].ID()
		for i := 0; i < n; i++ {
			inRes := false
			for j := 0; j < len(res.entries); j++ {
				inRes = zzAny(inRes, res.entries[j].ID() == ids[i])
			}
			eligible := zzAny(!onlyLive, live[i])
			zzAssert(zzImplies(zzAll(eligible, !inRes), enode.ZZSpecDistCmp(target, last, ids[i]) < 0), "no omitted eligible node is closer than a returned one")
		}
		zzReach("found")
	} else {
		zzReach("empty")
	}
	zzObserve("n", int64(len(res.entries)))
}

// bucket selection: log distance d maps to bucket max(0, d-240), always in range.
func zzH_C46_bucket_index() {
	self, id := zzID(), zzID()
	tab := zzTable(self)
	d := enode.LogDist(self, id)
	b := tab.bucket(id)
	want := d - (bucketMinDistance + 1)
	if want < 0 {
		want = 0
	}
	zzAssert(b == tab.buckets[want], "node goes to the bucket of its log distance")
	zzAssert(b.index == want && want < nBuckets, "bucket index in range")
	if d > bucketMinDistance+1 {
		zzReach("far")
	} else {
		zzReach("near")
	}
	zzObserve("bucket", int64(b.index))
}

// pushNode / deleteNode / containsID on replacement-style lists.
func zzH_C46_lists() {
	N := zzBound("N")
	n := zzChoice(N + 1)
	max := 1 + zzChoice(N)
	zzAssume(n <= max)
	ids := make([]enode.ID, n)
	old := make([]*tableNode, n)
	list := make([]*tableNode, 0, n)
	for i := range ids {
		ids[i] = zzID()
		old[i] = &tableNode{Node: enode.ZZNodeWithID(ids[i])}
		list = append(list, old[i])
	}
	x := zzID()
	present := false
	for i := range ids {
		present = zzAny(present, ids[i] == x)
	}
	zzAssert(containsID(list, x) == present, "containsID is membership by id")

	nn := &tableNode{Node: enode.ZZNodeWithID(x)}
	out, removed := pushNode(list, nn, max)
	wantLen := n + 1
	if wantLen > max {
		wantLen = max
	}
	zzAssert(len(out) == wantLen && out[0] == nn, "pushNode puts the node first and respects the limit")
	for i := 1; i < len(out); i++ {
		zzAssert(out[i] == old[i-1], "pushNode keeps the order of the others")
	}
	if n == max {
		zzAssert(removed == old[n-1], "the last node is evicted from a full list")
	} else {
		zzAssert(removed == nil, "nothing is evicted while there is room")
	}

	// deleteNode removes exactly the nodes with the id, keeping order
	y := zzID()
	before := append([]*tableNode(nil), out...) // deleteNode works in place and clears the tail
	del := deleteNode(out, y)
	k := 0
	for i := 0; i < len(before); i++ {
		if before[i].ID() == y {
			continue
		}
		zzAssert(k < len(del) && del[k] == before[i], "deleteNode keeps the other nodes in order")
		k++
	}
	zzAssert(k == len(del), "deleteNode removes every node with the id")
	zzReach("lists")
	zzObserve("len", int64(len(del)))
}

// ---- IP accounting of a bucket: the subnet sets always mirror the bucket's members ----

// zzPublicIP: a symbolic address in 50.0.x.y (public: not loopback, private or link-local), so
// that members fall into a few /24 ranges.
func zzPublicIP() [4]byte {
	c := zzNondetU8()
	zzAssume(c < 3)
	return [4]byte{50, 0, c, zzNondetU8()}
}

// zzSetsMirror: removing every member's address from the bucket's and the table's subnet sets
// empties them step by step - i.e. the sets count exactly the members, per subnet.
func zzSetsMirror(tab *Table, b *bucket, label string) {
	var members []*tableNode
	members = append(members, b.entries...)
	members = append(members, b.replacements...)
	zzAssert(b.ips.Len() == len(members) && tab.ips.Len() == len(members), label+": the subnet sets count exactly the bucket's entries and replacements")
	for i, m := range members {
		b.ips.RemoveAddr(m.IPAddr())
		tab.ips.RemoveAddr(m.IPAddr())
		zzAssert(b.ips.Len() == len(members)-i-1 && tab.ips.Len() == len(members)-i-1, label+": every member's subnet is counted once per member")
	}
}

func zzH_C46_ip_accounting() {
	self := zzID()
	tab := zzTable(self)
	tab.ips = netutil.DistinctNetSet{Subnet: tableSubnet, Limit: tableIPLimit}
	tab.cfg.Clock = new(mclock.Simulated)
	tab.cfg.Log = log.Root()
	tab.log = log.Root()
	b := tab.buckets[5]
	b.ips = netutil.DistinctNetSet{Subnet: bucketSubnet, Limit: bucketIPLimit}
	// members: up to 2 entries and up to 2 replacements with admissible addresses
	ne, nr := 1+zzChoice(2), zzChoice(3)
	var ids []enode.ID
	for i := 0; i < ne+nr; i++ {
		id := zzID()
		for _, o := range ids {
			zzAssume(id != o)
		}
		ids = append(ids, id)
		n := enode.ZZNodeAt(id, zzPublicIP(), 30303, 5)
		zzAssume(tab.addIP(b, n.IPAddr())) // members respect the limits
		tn := &tableNode{Node: n}
		if i < ne {
			tn.revalList = &tab.revalidation.fast // already scheduled for fast revalidation
			tab.revalidation.fast.nodes = append(tab.revalidation.fast.nodes, tn)
			b.entries = append(b.entries, tn)
		} else {
			b.replacements = append(b.replacements, tn)
		}
	}
	switch zzChoice(3) {
	case 2:
		// a node already held as a replacement is seen again with another record (possibly newer,
		// possibly at another address)
		if nr == 0 {
			return
		}
		old := b.replacements[zzChoice(nr)]
		rec := enode.ZZNodeAt(old.ID(), zzPublicIP(), 30303, zzNondetU64())
		tab.addReplacement(b, rec)
		zzReach("replacement-reoffered")
	case 0:
		// an existing entry announces a new endpoint (possibly into a full subnet: refused)
		old := b.entries[zzChoice(ne)]
		rec := enode.ZZNodeAt(old.ID(), zzPublicIP(), uint16(zzNondetU16()), zzNondetU64())
		n, changed := tab.bumpInBucket(b, rec, zzNondetBool())
		zzAssert(n == old, "the entry is found")
		if changed {
			zzAssert(old.Node == rec, "an accepted update replaces the record")
			zzReach("endpoint-updated")
		} else {
			zzReach("endpoint-kept")
		}
	default:
		// a new node is offered as a replacement
		rec := enode.ZZNodeAt(zzID(), zzPublicIP(), 30303, 1)
		tab.addReplacement(b, rec)
		zzReach("replacement-offered")
	}
	// limits hold for the members
	for _, m := range append(append([]*tableNode{}, b.entries...), b.replacements...) {
		same := 0
		for _, o := range append(append([]*tableNode{}, b.entries...), b.replacements...) {
			x, y := m.IPAddr().As4(), o.IPAddr().As4()
			if x[2] == y[2] {
				same++
			}
		}
		zzAssert(same <= bucketIPLimit, "at most two members of a bucket share a /24")
	}
	zzSetsMirror(tab, b, "after the operation")
}

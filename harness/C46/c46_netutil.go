package netutil

import "net/netip"

// Harness for C46 (subnet limits), package p2p/netutil.

func zzAddr4() netip.Addr {
	return netip.AddrFrom4([4]byte{zzNondetU8(), zzNondetU8(), zzNondetU8(), zzNondetU8()})
}

// DistinctNetSet: at most Limit addresses per /Subnet range, Add/Remove keep exact counts.
func zzH_C46_netset() {
	s := &DistinctNetSet{Subnet: 24, Limit: 2}
	n := zzBound("ADDRS")
	ips := make([]netip.Addr, n)
	in := make([]bool, n)
	for i := range ips {
		ips[i] = zzAddr4()
		// reference: number of members sharing the /24
		same := 0
		for j := 0; j < i; j++ {
			a, b := ips[i].As4(), ips[j].As4()
			if in[j] && a[0] == b[0] && a[1] == b[1] && a[2] == b[2] {
				same++
			}
		}
		in[i] = s.AddAddr(ips[i])
		zzAssert(in[i] == (same < 2), "an address is admitted iff fewer than Limit members share its subnet")
	}
	total := 0
	for i := range in {
		if in[i] {
			total++
		}
	}
	zzAssert(s.Len() == total, "Len counts the admitted addresses")
	// removing an admitted address makes room again
	k := zzChoice(n)
	if in[k] {
		s.RemoveAddr(ips[k])
		zzAssert(s.Len() == total-1, "Remove drops exactly one")
		zzAssert(s.AddAddr(ips[k]), "a removed address can be added again")
		zzReach("removed")
	}
}

package enode

import "net/netip"

// Harnesses for C46 (XOR metric), package p2p/enode.

// ZZNodeWithID builds a node that has only an identity (overlay helper for the
// harnesses in p2p/discover; not part of /repo).
func ZZNodeWithID(id ID) *Node { return &Node{id: id} }

func zzID() (id ID) {
	copy(id[:], zzNondetBytesN(len(id)))
	return id
}

// ZZSpecDistCmp is the definition of the comparison: the sign of
// (a XOR target) - (b XOR target), both read as 256-bit big-endian unsigned
// numbers. It is fork-free (one term) so that harnesses of the callers can use
// it in place of DistCmp once zzH_C46_distcmp has shown the two equal.
func ZZSpecDistCmp(target, a, b ID) int {
	r := uint64(1) // 0: a closer, 1: equal, 2: b closer
	for i := len(target)/8 - 1; i >= 0; i-- {
		da, db := zzLimb(target, i)^zzLimb(a, i), zzLimb(target, i)^zzLimb(b, i)
		r = zzIte(da > db, 2, zzIte(da < db, 0, r))
	}
	return int(r) - 1
}

// zzLimb is the i-th 64-bit big-endian digit of the id.
func zzLimb(x ID, i int) uint64 {
	var v uint64
	for k := 0; k < 8; k++ {
		v = v<<8 | uint64(x[i*8+k])
	}
	return v
}

func zzBitLen8(x byte) uint64 {
	return zzIte(x >= 128, 8, zzIte(x >= 64, 7, zzIte(x >= 32, 6, zzIte(x >= 16, 5,
		zzIte(x >= 8, 4, zzIte(x >= 4, 3, zzIte(x >= 2, 2, zzIte(x >= 1, 1, 0))))))))
}

// ZZSpecLogDist: position of the highest set bit of a XOR b (1-based), 0 if equal.
func ZZSpecLogDist(a, b ID) int {
	r := uint64(0)
	for i := len(a) - 1; i >= 0; i-- {
		x := a[i] ^ b[i]
		r = zzIte(x != 0, uint64(len(a)-1-i)*8+zzBitLen8(x), r)
	}
	return int(r)
}

func zzH_C46_distcmp() {
	t, a, b := zzID(), zzID(), zzID()
	got := DistCmp(t, a, b)
	zzAssert(got == ZZSpecDistCmp(t, a, b), "DistCmp is the sign of the difference of the XOR distances")
	zzAssert((got == 0) == (a == b), "equal distance to the same target iff same id")
	zzAssert(DistCmp(t, b, a) == -got, "antisymmetric")
	zzAssert(DistCmp(t, a, a) == 0, "reflexive")
	if got < 0 {
		zzReach("a-closer")
	} else if got > 0 {
		zzReach("b-closer")
	} else {
		zzReach("equal")
	}
	zzObserve("cmp", int64(got))
}

func zzH_C46_distcmp_trans() {
	// transitivity of "closer to target" (used by the sortedness arguments)
	t, a, b, c := zzID(), zzID(), zzID(), zzID()
	ab, bc, ac := ZZSpecDistCmp(t, a, b), ZZSpecDistCmp(t, b, c), ZZSpecDistCmp(t, a, c)
	zzAssert(zzImplies(zzAll(ab <= 0, bc <= 0), ac <= 0), "distance order is transitive")
	zzAssert(zzImplies(zzAll(ab < 0, bc <= 0), ac < 0), "strictness is kept")
	zzReach("trans")
}

func zzH_C46_logdist() {
	a, b := zzID(), zzID()
	got := LogDist(a, b)
	zzAssert(got == ZZSpecLogDist(a, b), "LogDist is the bit length of a XOR b")
	zzAssert(got >= 0 && got <= 256, "log distance is within [0,256]")
	zzAssert((got == 0) == (a == b), "zero distance iff same id")
	zzAssert(LogDist(b, a) == got, "symmetric")
	if got > 0 {
		zzReach("different")
	} else {
		zzReach("same")
	}
	zzObserve("logdist", int64(got))
}

// ZZNodeAt builds a node with an identity, an IPv4 endpoint and a record sequence number
// (overlay helper for the harnesses in p2p/discover).
func ZZNodeAt(id ID, ip [4]byte, udp uint16, seq uint64) *Node {
	n := &Node{id: id, ip: netip.AddrFrom4(ip), udp: udp}
	n.r.SetSeq(seq)
	return n
}

package vm

import "github.com/holiman/uint256"

// Harnesses for C28 (pooling / caching kernels), package core/vm.

// zzMemory builds a Memory in an arbitrary state satisfying the
// representation invariant: store[0:len) arbitrary, store[len:cap) zero
// (established by make/append, which zero-fill, and relied upon by
// Resize's re-slicing branch and by Free, which clears only [0:len)).
func zzMemory() (*Memory, int, int) {
	lo := zzBound("MINLEN")
	c := lo + zzChoice(zzBound("CAP")-lo+1)
	l := lo + zzChoice(c-lo+1)
	store := make([]byte, c)
	copy(store, zzNondetBytesN(l))
	return &Memory{store: store[:l], lastGasCost: zzNondetU64()}, l, c
}

func zzMemInv(m *Memory) bool {
	full := m.store[:cap(m.store)]
	ok := true
	for i := len(m.store); i < len(full); i++ {
		ok = zzAll(ok, full[i] == 0)
	}
	return ok
}

func zzH_C28_memory_step() {
	m, l, _ := zzMemory()
	op := 2
	if zzBound("ONLY32") == 0 {
		op = zzChoice(4)
	}
	switch op {
	case 0:
		n := uint64(zzChoice(zzBound("CAP") + 10))
		m.Resize(n)
		zzAssert(uint64(len(m.store)) >= n, "Resize makes room")
		zzReach("resize")
	case 1:
		if l == 0 {
			return
		}
		off := uint64(zzChoice(l))
		size := uint64(zzChoice(l-int(off)) + 1)
		val := zzNondetBytesN(int(size))
		m.Set(off, size, val)
		zzAssert(zzBytesEq(m.store[off:off+size], val), "Set stores the value")
		zzReach("set")
	case 2:
		if l < 32 {
			return
		}
		off := uint64(zzChoice(l - 31))
		v := uint256.Int{zzNondetU64(), zzNondetU64(), zzNondetU64(), zzNondetU64()}
		m.Set32(off, &v)
		back := new(uint256.Int).SetBytes32(m.store[off : off+32])
		zzAssert(*back == v, "Set32 stores the word big-endian")
		zzReach("set32")
	default:
		if l == 0 {
			return
		}
		src := uint64(zzChoice(l))
		ln := uint64(zzChoice(l-int(src)) + 1)
		dst := uint64(zzChoice(l - int(ln) + 1))
		m.Copy(dst, src, ln)
		zzReach("copy")
	}
	zzAssert(zzMemInv(m), "every Memory operation keeps the bytes beyond len zero")
	// pooling: what Free hands to the pool is indistinguishable from a new Memory
	m.Free()
	zzAssert(len(m.store) == 0, "freed memory has length 0")
	zzAssert(m.lastGasCost == 0, "freed memory has no gas history")
	full := m.store[:cap(m.store)]
	for i := range full {
		zzAssert(full[i] == 0, "freed memory holds no stale bytes anywhere in its capacity")
	}
	// a pristine pooled object then reads zero after any Resize
	k := uint64(zzChoice(zzBound("CAP") + 10))
	m.Resize(k)
	for i := uint64(0); i < k; i++ {
		zzAssert(m.store[i] == 0, "memory taken from the pool reads zero")
	}
	zzObserve("len", m.Len())
}

// zzWord returns a symbolic stack word.
func zzWord() uint256.Int {
	return uint256.Int{zzNondetU64(), zzNondetU64(), zzNondetU64(), zzNondetU64()}
}

// Stack frames carved out of one arena are isolated from each other.
func zzH_C28_stack_frames() {
	d := zzBound("D") // arena length before the child frame is created
	top := zzBound("TOPLO") + zzChoice(zzBound("TOPN"))
	zzAssume(top <= d)
	arena := &stackArena{data: make([]uint256.Int, d), top: 0}
	// a suspended parent frame occupying [bottomP, top)
	bottomP := zzChoice(top + 1)
	arena.top = bottomP
	parent := arena.stack()
	for i := bottomP; i < top; i++ {
		w := zzWord()
		parent.push(&w)
	}
	zzAssert(arena.top == top, "parent occupies [bottom, top)")
	var saved []uint256.Int
	for _, w := range parent.Data() {
		saved = append(saved, w)
	}
	child := arena.stack()
	zzAssert(child.bottom == top, "child frame starts at the arena top")
	zzAssert(len(arena.data) >= top+1024, "a new frame has room for 1024 elements")
	steps := zzBound("STEPS")
	for s := 0; s < steps; s++ {
		switch zzChoice(4) {
		case 0:
			w := zzWord()
			child.push(&w)
		case 1:
			if child.len() < 1 {
				return
			}
			child.pop()
		case 2:
			if child.len() < 2 {
				return
			}
			child.swap1()
		default:
			if child.len() < 1 {
				return
			}
			child.dup(1)
		}
		zzAssert(arena.top == child.bottom+child.size, "arena top tracks the innermost frame")
	}
	// a full-depth push at the end of the frame stays inside the arena
	zzAssert(child.bottom+1023 < len(arena.data), "slot 1023 of the frame is addressable")
	child.release()
	zzAssert(arena.top == top, "release restores the arena top")
	after := parent.Data()
	zzAssert(len(after) == len(saved), "parent frame length unchanged")
	for i := range saved {
		zzAssert(after[i] == saved[i], "parent frame contents unchanged by the child frame")
	}
	zzReach("frames")
	zzObserve("top", arena.top)
}

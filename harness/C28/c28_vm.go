package vm

import "github.com/holiman/uint256"

// Harnesses for C28 (pooling / caching kernels), package core/vm.

// zzMemory builds a Memory in an arbitrary state satisfying the
// representation invariant: store[0:len) arbitrary, store[len:cap) zero
// (established by make/append, which zero-fill, and relied upon by
// Resize's re-slicing branch and by Free, which clears only [0:len)).
func zzMemory() (*Memory, int, int) {
	lo := zzBound("MINLEN")
	c := lo + zzChoice(zzBound("CAP")-lo+1)
	l := lo + zzChoice(c-lo+1)
	store := make([]byte, c)
	copy(store, zzNondetBytesN(l))
	return &Memory{store: store[:l], lastGasCost: zzNondetU64()}, l, c
}

func zzMemInv(m *Memory) bool {
	full := m.store[:cap(m.store)]
	ok := true
	for i := len(m.store); i < len(full); i++ {
		ok = zzAll(ok, full[i] == 0)
	}
	return ok
}

func zzH_C28_memory_step() {
	m, l, _ := zzMemory()
	op := 2
	if zzBound("ONLY32") == 0 {
		op = zzChoice(4)
	}
	switch op {
	case 0:
		n := uint64(zzChoice(zzBound("CAP") + 10))
		m.Resize(n)
		zzAssert(uint64(len(m.store)) >= n, "Resize makes room")
		zzReach("resize")
	case 1:
		if l == 0 {
			return
		}
		off := uint64(zzChoice(l))
		size := uint64(zzChoice(l-int(off)) + 1)
		val := zzNondetBytesN(int(size))
		m.Set(off, size, val)
		zzAssert(zzBytesEq(m.store[off:off+size], val), "Set stores the value")
		zzReach("set")
	case 2:
		if l < 32 {
			return
		}
		off := uint64(zzChoice(l - 31))
		v := uint256.Int{zzNondetU64(), zzNondetU64(), zzNondetU64(), zzNondetU64()}
		m.Set32(off, &v)
		back := new(uint256.Int).SetBytes32(m.store[off : off+32])
		zzAssert(*back == v, "Set32 stores the word big-endian")
		zzReach("set32")
	default:
		if l == 0 {
			return
		}
		src := uint64(zzChoice(l))
		ln := uint64(zzChoice(l-int(src)) + 1)
		dst := uint64(zzChoice(l - int(ln) + 1))
		m.Copy(dst, src, ln)
		zzReach("copy")
	}
	zzAssert(zzMemInv(m), "every Memory operation keeps the bytes beyond len zero")
	// pooling: what Free hands to the pool is indistinguishable from a new Memory
	m.Free()
	zzAssert(len(m.store) == 0, "freed memory has length 0")
	zzAssert(m.lastGasCost == 0, "freed memory has no gas history")
	full := m.store[:cap(m.store)]
	for i := range full {
		zzAssert(full[i] == 0, "freed memory holds no stale bytes anywhere in its capacity")
	}
	// a pristine pooled object then reads zero after any Resize
	k := uint64(zzChoice(zzBound("CAP") + 10))
	m.Resize(k)
	for i := uint64(0); i < k; i++ {
		zzAssert(m.store[i] == 0, "memory taken from the pool reads zero")
	}
	zzObserve("len", m.Len())
}

// zzWord returns a symbolic stack word.
func zzWord() uint256.Int {
	return uint256.Int{zzNondetU64(), zzNondetU64(), zzNondetU64(), zzNondetU64()}
}

// Stack frames carved out of one arena are isolated from each other.
func zzH_C28_stack_frames() {
	d := zzBound("D") // arena length before the child frame is created
	top := zzBound("TOPLO") + zzChoice(zzBound("TOPN"))
	zzAssume(top <= d)
	arena := &stackArena{data: make([]uint256.Int, d), top: 0}
	// a suspended parent frame occupying [bottomP, top)
	bottomP := zzChoice(top + 1)
	arena.top = bottomP
	parent := arena.stack()
	for i := bottomP; i < top; i++ {
		w := zzWord()
		parent.push(&w)
	}
	zzAssert(arena.top == top, "parent occupies [bottom, top)")
	var saved []uint256.Int
	for _, w := range parent.Data() {
		saved = append(saved, w)
	}
	child := arena.stack()
	zzAssert(child.bottom == top, "child frame starts at the arena top")
	zzAssert(len(arena.data) >= top+1024, "a new frame has room for 1024 elements")
	steps := zzBound("STEPS")
	for s := 0; s < steps; s++ {
		switch zzChoice(4) {
		case 0:
			w := zzWord()
			child.push(&w)
		case 1:
			if child.len() < 1 {
				return
			}
			child.pop()
		case 2:
			if child.len() < 2 {
				return
			}
			child.swap1()
		default:
			if child.len() < 1 {
				return
			}
			child.dup(1)
		}
		zzAssert(arena.top == child.bottom+child.size, "arena top tracks the innermost frame")
	}
	// a full-depth push at the end of the frame stays inside the arena
	zzAssert(child.bottom+1023 < len(arena.data), "slot 1023 of the frame is addressable")
	child.release()
	zzAssert(arena.top == top, "release restores the arena top")
	after := parent.Data()
	zzAssert(len(after) == len(saved), "parent frame length unchanged")
	for i := range saved {
		zzAssert(after[i] == saved[i], "parent frame contents unchanged by the child frame")
	}
	zzReach("frames")
	zzObserve("top", arena.top)
}

// ---- precompile result cache: a cache key must determine everything Run reads ----

// normalizeZeroPadded(input, k): two inputs with the same key read the same through a
// k-byte zero-extended window (what ecrecover / bn256Add / bn256ScalarMul do).
func zzH_C28_zero_padded_key() {
	k := zzChoice(zzBound("PREFIX") + 1)
	a, b := zzNondetBytes(zzBound("PREFIX")+2), zzNondetBytes(zzBound("PREFIX")+2)
	ka, kb := normalizeZeroPadded(a, k), normalizeZeroPadded(b, k)
	if !zzBytesEq(ka, kb) {
		zzReach("different-keys")
		return
	}
	va, vb := getData(a, 0, uint64(k)), getData(b, 0, uint64(k))
	zzAssert(zzBytesEq(va, vb), "inputs sharing a key read identically through the zero-extended prefix")
	zzReach("same-key")
}

// The three prefix-reading precompiles pass the length their Run reads: a difference
// inside that prefix changes the key, a difference right after it does not matter to Run.
func zzH_C28_prefix_consts() {
	type pc struct {
		n NormalizingPrecompile
		k int
	}
	cases := [...]pc{{&ecrecover{}, 128}, {&bn256AddIstanbul{}, 128}, {&bn256AddByzantium{}, 128},
		{&bn256ScalarMulIstanbul{}, 96}, {&bn256ScalarMulByzantium{}, 96}}
	c := cases[zzChoice(len(cases))]
	// Run of these precompiles reads exactly the first k bytes, zero extended
	// (RightPadBytes(input, 128) / getData(input, 0, 64..128)); k is taken from the
	// yellow-paper/EIP input layouts: 4x32 bytes, 2 points, point + scalar.
	a := make([]byte, c.k+1)
	b := make([]byte, c.k+1)
	for i := range a {
		a[i], b[i] = 0x11, 0x11
	}
	pos := [...]int{0, 31, 32, 63, 64, c.k - 2, c.k - 1, c.k}
	i := pos[zzChoice(len(pos))]
	a[i], b[i] = zzNondetU8(), zzNondetU8()
	ka, oka := c.n.NormalizeInput(a)
	kb, okb := c.n.NormalizeInput(b)
	zzAssert(oka && okb, "always cacheable")
	same := zzBytesEq(ka, kb)
	if i < c.k {
		zzAssert(same == (a[i] == b[i]), "a byte Run reads is part of the key")
		zzReach("inside")
	} else {
		zzAssert(same, "a byte beyond what Run reads is not part of the key")
		zzReach("beyond")
	}
}

// MODEXP: inputs sharing a key agree on the three lengths and - unless the modulus is
// empty, which fixes the result - on the zero-extended operand bytes Run reads.
func zzH_C28_modexp_key() {
	L := uint64(zzBound("OPS"))
	max := 96 + 3*int(L) + 2
	a, b := zzNondetBytes(max), zzNondetBytes(max)
	lens := func(in []byte) (bl, el, ml uint64, ok bool) {
		x := new(uint256.Int).SetBytes(getData(in, 0, 32))
		y := new(uint256.Int).SetBytes(getData(in, 32, 32))
		z := new(uint256.Int).SetBytes(getData(in, 64, 32))
		small := zzAll(x[1]|x[2]|x[3] == 0, y[1]|y[2]|y[3] == 0, z[1]|z[2]|z[3] == 0, x[0] <= L, y[0] <= L, z[0] <= L)
		return x[0], y[0], z[0], small
	}
	abl, ael, aml, oka := lens(a)
	bbl, bel, bml, okb := lens(b)
	zzAssume(oka) // operand lengths within the bound (longer operands are outside this harness)
	zzAssume(okb)
	p := &bigModExp{eip2565: zzNondetBool(), eip7823: zzNondetBool(), eip7883: zzNondetBool()}
	ka, c1 := p.NormalizeInput(a)
	kb, c2 := p.NormalizeInput(b)
	zzAssert(c1 && c2, "inputs with addressable lengths are cacheable")
	if !zzBytesEq(ka, kb) {
		zzReach("different-keys")
		return
	}
	zzAssert(abl == bbl && ael == bel && aml == bml, "same key, same operand lengths")
	if aml != 0 {
		body := func(in []byte) []byte {
			if len(in) > 96 {
				return in[96:]
			}
			return in[:0]
		}
		va := getData(body(a), 0, abl+ael+aml)
		vb := getData(body(b), 0, abl+ael+aml)
		zzAssert(zzBytesEq(va, vb), "same key, same base/exponent/modulus bytes")
		zzReach("same-key-operands")
	} else {
		zzReach("same-key-empty-modulus")
	}
}

package bal

import (
	"bytes"
	"math/bits"

	"github.com/ethereum/go-ethereum/common"
	"github.com/ethereum/go-ethereum/rlp"
	"github.com/holiman/uint256"
)

// Harnesses for C15 (encoded form of block access lists), package core/types/bal.

// zzSlot: a symbolic 256-bit word that is either short (< 256) or full length (top byte non-zero),
// so that its minimal byte encoding - which validation and the codec compute - has 3 possible
// lengths instead of 33. (FULLSLOTS = 1: any 128-bit value.)
func zzSlot() *uint256.Int {
	if zzBound("FULLSLOTS") != 0 {
		return &uint256.Int{zzNondetU64(), zzNondetU64(), 0, 0}
	}
	if zzNondetBool() {
		return &uint256.Int{uint64(zzNondetU8()), 0, 0, 0}
	}
	top := zzNondetU64()
	zzAssume(top >= 1<<56)
	return &uint256.Int{zzNondetU64(), zzNondetU64(), zzNondetU64(), top}
}

func zzLt(a, b *uint256.Int) bool {
	_, c := bits.Sub64(a[0], b[0], 0)
	_, c = bits.Sub64(a[1], b[1], c)
	_, c = bits.Sub64(a[2], b[2], c)
	_, c = bits.Sub64(a[3], b[3], c)
	return c != 0
}
func zzEq(a, b *uint256.Int) bool {
	return zzAll(a[0] == b[0], a[1] == b[1], a[2] == b[2], a[3] == b[3])
}

// zzAccount draws an account entry: up to N slot-change groups with up to N writes each, up to N
// reads, balance, nonce and code changes; slots, indices and values are symbolic.
func zzAccount(N int) AccountAccess {
	var a AccountAccess
	a.Address = common.Address{19: zzNondetU8()}
	for i, n := 0, zzChoice(N+1); i < n; i++ {
		sc := encodingSlotChanges{Slot: zzSlot()}
		for j, m := 0, zzChoice(N+1); j < m; j++ {
			sc.SlotChanges = append(sc.SlotChanges, encodingStorageWrite{BlockAccessIndex: zzNondetU32(), PostValue: zzSlot()})
		}
		a.StorageChanges = append(a.StorageChanges, sc)
	}
	for i, n := 0, zzChoice(N+1); i < n; i++ {
		a.StorageReads = append(a.StorageReads, zzSlot())
	}
	for i, n := 0, zzChoice(N+1); i < n; i++ {
		a.BalanceChanges = append(a.BalanceChanges, encodingBalanceChange{BlockAccessIndex: zzNondetU32(), PostBalance: zzSlot()})
	}
	for i, n := 0, zzChoice(N+1); i < n; i++ {
		a.NonceChanges = append(a.NonceChanges, encodingAccountNonce{BlockAccessIndex: zzNondetU32(), PostNonce: zzNondetU64()})
	}
	for i, n := 0, zzChoice(N+1); i < n; i++ {
		a.CodeChanges = append(a.CodeChanges, encodingCodeChange{BlockAccessIndex: zzNondetU32(), NewCode: zzNondetBytes(2)})
	}
	return a
}

// zzSpecValid is the EIP-7928 well-formedness of one account entry, stated pairwise.
func zzSpecValid(a *AccountAccess, max uint32) bool {
	ok := true
	for i := range a.StorageChanges {
		sc := &a.StorageChanges[i]
		if i > 0 {
			ok = zzAll(ok, zzLt(a.StorageChanges[i-1].Slot, sc.Slot)) // slots strictly ascending
		}
		ok = zzAll(ok, len(sc.SlotChanges) > 0) // no empty group
		for j := range sc.SlotChanges {
			if j > 0 {
				ok = zzAll(ok, sc.SlotChanges[j-1].BlockAccessIndex < sc.SlotChanges[j].BlockAccessIndex)
			}
			ok = zzAll(ok, sc.SlotChanges[j].BlockAccessIndex <= max)
		}
		for _, r := range a.StorageReads {
			ok = zzAll(ok, !zzEq(r, sc.Slot)) // a slot is either read or written
		}
	}
	for i := 1; i < len(a.StorageReads); i++ {
		ok = zzAll(ok, zzLt(a.StorageReads[i-1], a.StorageReads[i]))
	}
	for i := range a.BalanceChanges {
		if i > 0 {
			ok = zzAll(ok, a.BalanceChanges[i-1].BlockAccessIndex < a.BalanceChanges[i].BlockAccessIndex)
		}
		ok = zzAll(ok, a.BalanceChanges[i].BlockAccessIndex <= max)
	}
	for i := range a.NonceChanges {
		if i > 0 {
			ok = zzAll(ok, a.NonceChanges[i-1].BlockAccessIndex < a.NonceChanges[i].BlockAccessIndex)
		}
		ok = zzAll(ok, a.NonceChanges[i].BlockAccessIndex <= max)
	}
	for i := range a.CodeChanges {
		if i > 0 {
			ok = zzAll(ok, a.CodeChanges[i-1].BlockAccessIndex < a.CodeChanges[i].BlockAccessIndex)
		}
		ok = zzAll(ok, a.CodeChanges[i].BlockAccessIndex <= max)
	}
	return ok
}

func zzH_C15_validate() {
	a := zzAccount(zzBound("N"))
	txs := zzNondetU32()
	zzAssume(txs <= 1<<20)
	err := a.validate(int(txs) + 1)
	zzAssert((err == nil) == zzSpecValid(&a, txs+1), "an account entry validates iff it is sorted, duplicate-free, read/write disjoint and within the block's index range")
	if err == nil {
		zzReach("valid")
	} else {
		zzReach("invalid")
	}
}

// Block level: accounts strictly ascending by address, every entry valid, size within the gas-limit budget.
func zzH_C15_validate_block() {
	n := zzChoice(zzBound("ACCTS") + 1)
	var list BlockAccessList
	items := uint64(n)
	valid := true
	for i := 0; i < n; i++ {
		// light entries: what matters at block level is the address order, entry validity and the item count
		a := AccountAccess{Address: common.Address{19: zzNondetU8()}}
		if zzNondetBool() {
			a.StorageReads = append(a.StorageReads, zzSlot())
		}
		if zzNondetBool() {
			a.StorageChanges = append(a.StorageChanges, encodingSlotChanges{Slot: zzSlot(),
				SlotChanges: []encodingStorageWrite{{BlockAccessIndex: zzNondetU32(), PostValue: zzSlot()}}})
		}
		list = append(list, a)
		items += uint64(len(a.StorageChanges) + len(a.StorageReads))
		valid = zzAll(valid, zzSpecValid(&a, 4))
		if i > 0 {
			valid = zzAll(valid, list[i-1].Address[19] < a.Address[19])
		}
	}
	gasLimit := zzNondetU64()
	err := list.Validate(gasLimit, 3)
	zzAssert((err == nil) == zzAll(valid, items <= gasLimit/2000), "a list validates iff accounts ascend strictly, entries are valid and items*ITEM_COST fits the block gas limit")
	if err == nil {
		zzReach("valid")
	} else {
		zzReach("invalid")
	}
}

// The generated RLP codec round-trips: decode(encode(a)) == a field by field, and re-encoding is byte-identical.
// zzCodecAccount: an entry in which FIELDS of the six lists (chosen symbolically) hold one element;
// every integer takes all its RLP size classes, which is what the paths split on.
func zzCodecAccount(fields int) AccountAccess {
	var a AccountAccess
	a.Address = common.Address{0: zzNondetU8(), 19: zzNondetU8()}
	for f := 0; f < fields; f++ {
		switch zzChoice(6) {
		case 0:
			a.StorageChanges = append(a.StorageChanges, encodingSlotChanges{Slot: zzSlot()})
		case 1:
			a.StorageChanges = append(a.StorageChanges, encodingSlotChanges{Slot: zzSlot(),
				SlotChanges: []encodingStorageWrite{{BlockAccessIndex: zzNondetU32(), PostValue: zzSlot()}}})
		case 2:
			a.StorageReads = append(a.StorageReads, zzSlot())
		case 3:
			a.BalanceChanges = append(a.BalanceChanges, encodingBalanceChange{BlockAccessIndex: uint32(zzNondetU16()), PostBalance: zzSlot()})
		case 4:
			a.NonceChanges = append(a.NonceChanges, encodingAccountNonce{BlockAccessIndex: uint32(zzNondetU8()), PostNonce: zzNondetU64()})
		default:
			a.CodeChanges = append(a.CodeChanges, encodingCodeChange{BlockAccessIndex: uint32(zzNondetU8()), NewCode: zzNondetBytes(2)})
		}
	}
	return a
}

func zzH_C15_codec() {
	a := zzCodecAccount(zzBound("FIELDS"))
	var buf bytes.Buffer
	zzAssert(a.EncodeRLP(&buf) == nil, "encoding succeeds")
	enc := buf.Bytes()
	var b AccountAccess
	err := b.DecodeRLP(rlp.NewStream(bytes.NewReader(enc), uint64(len(enc))))
	zzAssert(err == nil, "the encoding decodes")
	same := zzAll(b.Address == a.Address, len(b.StorageChanges) == len(a.StorageChanges), len(b.StorageReads) == len(a.StorageReads),
		len(b.BalanceChanges) == len(a.BalanceChanges), len(b.NonceChanges) == len(a.NonceChanges), len(b.CodeChanges) == len(a.CodeChanges))
	zzAssert(same, "decoded entry has the same shape")
	for i := range a.StorageChanges {
		zzAssert(zzEq(a.StorageChanges[i].Slot, b.StorageChanges[i].Slot) && len(a.StorageChanges[i].SlotChanges) == len(b.StorageChanges[i].SlotChanges), "slot group round-trips")
		for j := range a.StorageChanges[i].SlotChanges {
			x, y := a.StorageChanges[i].SlotChanges[j], b.StorageChanges[i].SlotChanges[j]
			zzAssert(x.BlockAccessIndex == y.BlockAccessIndex && zzEq(x.PostValue, y.PostValue), "storage write round-trips")
		}
	}
	for i := range a.StorageReads {
		zzAssert(zzEq(a.StorageReads[i], b.StorageReads[i]), "storage read round-trips")
	}
	for i := range a.BalanceChanges {
		zzAssert(a.BalanceChanges[i].BlockAccessIndex == b.BalanceChanges[i].BlockAccessIndex && zzEq(a.BalanceChanges[i].PostBalance, b.BalanceChanges[i].PostBalance), "balance change round-trips")
	}
	for i := range a.NonceChanges {
		zzAssert(a.NonceChanges[i] == b.NonceChanges[i], "nonce change round-trips")
	}
	for i := range a.CodeChanges {
		zzAssert(a.CodeChanges[i].BlockAccessIndex == b.CodeChanges[i].BlockAccessIndex && zzBytesEq(a.CodeChanges[i].NewCode, b.CodeChanges[i].NewCode), "code change round-trips")
	}
	var buf2 bytes.Buffer
	zzAssert(b.EncodeRLP(&buf2) == nil && zzBytesEq(buf2.Bytes(), enc), "re-encoding the decoded entry is byte-identical")
	zzReach("roundtrip")
}

// The construction-time list (maps keyed by slot and index) converts to an encoding object that
// passes validation and holds exactly what was recorded, in canonical order, whatever order the
// changes were recorded in.
func zzH_C15_to_encoding() {
	b := NewConstructionBlockAccessList()
	addr := common.Address{19: 7}
	i1, i2 := uint32(zzNondetU16()), uint32(zzNondetU16())
	zzAssume(i1 != i2)
	var bal1, bal2 uint256.Int
	bal1[0], bal2[0] = zzNondetU64(), zzNondetU64()
	b.BalanceChange(i1, addr, &bal1)
	b.BalanceChange(i2, addr, &bal2)
	n1, n2 := zzNondetU64(), zzNondetU64()
	b.NonceChange(addr, i1, n1)
	b.NonceChange(addr, i2, n2)
	b.CodeChange(addr, i1, []byte{zzNondetU8()})
	b.CodeChange(addr, i2, []byte{zzNondetU8()})
	s1, s2 := common.Hash{31: zzNondetU8()}, common.Hash{31: zzNondetU8()}
	zzAssume(s1 != s2)
	b.StorageWrite(i1, addr, s1, common.Hash{31: 1})
	b.StorageWrite(i2, addr, s1, common.Hash{31: 2})
	b.StorageRead(addr, s2)
	enc := b.ToEncodingObj()
	zzAssert(len(*enc) == 1, "one account")
	a := (*enc)[0]
	zzAssert(a.Address == addr, "address kept")
	zzAssert(len(a.BalanceChanges) == 2 && len(a.NonceChanges) == 2 && len(a.CodeChanges) == 2 && len(a.StorageChanges) == 1 && len(a.StorageReads) == 1, "every recorded change appears once")
	zzAssert(len(a.StorageChanges[0].SlotChanges) == 2, "both writes to the slot appear")
	lo, hi := i1, i2
	if lo > hi {
		lo, hi = hi, lo
	}
	zzAssert(a.BalanceChanges[0].BlockAccessIndex == lo && a.BalanceChanges[1].BlockAccessIndex == hi, "balance changes in index order")
	zzAssert(a.NonceChanges[0].BlockAccessIndex == lo && a.NonceChanges[1].BlockAccessIndex == hi, "nonce changes in index order")
	zzAssert(a.CodeChanges[0].BlockAccessIndex == lo && a.CodeChanges[1].BlockAccessIndex == hi, "code changes in index order")
	zzAssert(a.StorageChanges[0].SlotChanges[0].BlockAccessIndex == lo && a.StorageChanges[0].SlotChanges[1].BlockAccessIndex == hi, "storage writes in index order")
	zzAssert(enc.Validate(1<<40, 1<<16) == nil, "the converted list passes validation")
	zzReach("converted")
}

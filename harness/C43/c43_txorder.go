package txorder

import (
	"math/big"
	"math/bits"
	"time"

	"github.com/ethereum/go-ethereum/common"
	"github.com/ethereum/go-ethereum/core/txpool"
	"github.com/holiman/uint256"
)

// Harness for C43 (price-and-nonce ordered transaction iterator), package core/txpool/txorder.

// eager (fork-free) 256-bit comparisons for the reference model
func zzLt(a, b *uint256.Int) bool {
	_, c := bits.Sub64(a[0], b[0], 0)
	_, c = bits.Sub64(a[1], b[1], c)
	_, c = bits.Sub64(a[2], b[2], c)
	_, c = bits.Sub64(a[3], b[3], c)
	return c != 0
}
func zzEq(a, b *uint256.Int) bool {
	return zzAll(a[0] == b[0], a[1] == b[1], a[2] == b[2], a[3] == b[3])
}

func zzFee() *uint256.Int {
	// LIMBS=2: 128-bit fees exercise the multi-limb comparison
	if zzBound("LIMBS") >= 2 {
		return &uint256.Int{zzNondetU64(), zzNondetU64(), 0, 0}
	}
	return &uint256.Int{zzNondetU64(), 0, 0, 0}
}

type zzAcct struct {
	addr  common.Address
	txs   []*txpool.LazyTransaction
	sec   []int64         // arrival time of each tx (seconds)
	tip   []*uint256.Int  // reference: effective tip of each tx
	ok    []bool          // reference: fee cap covers the base fee
	next  int             // reference cursor: index of the account's current head
	alive bool
}

func zzH_C43_iterator() {
	A, T, K := zzBound("ACCOUNTS"), zzBound("TXS"), zzBound("STEPS")
	var base *big.Int
	var baseU *uint256.Int
	if zzNondetBool() {
		base = new(big.Int).SetUint64(zzNondetU64())
		baseU = uint256.MustFromBig(base)
	}
	nacc := 1 + zzChoice(A)
	accts := make([]*zzAcct, nacc)
	input := map[common.Address][]*txpool.LazyTransaction{}
	for a := 0; a < nacc; a++ {
		ac := &zzAcct{addr: common.Address{byte(a + 1)}, alive: true}
		n := 1 + zzChoice(T) // the pool never hands over an empty list
		for i := 0; i < n; i++ {
			sec := int64(zzNondetU32())
			cap, tip := zzFee(), zzFee()
			tx := &txpool.LazyTransaction{Time: time.Unix(sec, 0), GasFeeCap: cap, GasTipCap: tip}
			ac.txs = append(ac.txs, tx)
			ac.sec = append(ac.sec, sec)
			// reference: effective tip = min(tip, feeCap - baseFee); unpayable if feeCap < baseFee
			eff, ok := tip, true
			if baseU != nil {
				ok = !zzLt(cap, baseU)
				d := new(uint256.Int).Sub(cap, baseU)
				eff = &uint256.Int{}
				lt := zzLt(d, tip)
				for l := 0; l < 4; l++ {
					eff[l] = zzIte(lt, d[l], tip[l])
				}
			}
			ac.tip = append(ac.tip, eff)
			ac.ok = append(ac.ok, ok)
		}
		accts[a] = ac
		input[ac.addr] = ac.txs
	}
	it := NewTransactionsByPriceAndNonce(nil, input, base)

	// an account whose head cannot pay the base fee is dropped entirely
	for _, ac := range accts {
		if !ac.ok[0] {
			ac.alive = false
		}
	}
	for step := 0; step < K; step++ {
		got, fee := it.Peek()
		var cur *zzAcct
		nalive := 0
		for _, ac := range accts {
			if ac.alive {
				nalive++
				if ac.txs[ac.next] == got {
					cur = ac
				}
			}
		}
		if nalive == 0 {
			zzAssert(got == nil && it.Empty(), "iterator is empty exactly when no account has a transaction left")
			zzReach("drained")
			break
		}
		zzAssert(!it.Empty(), "not empty while an account has a payable transaction")
		zzAssert(cur != nil, "the yielded transaction is the next-nonce transaction of a remaining account")
		zzAssert(zzEq(fee, cur.tip[cur.next]), "reported fee is the effective tip")
		for _, ac := range accts {
			if ac.alive && ac != cur {
				better := zzAny(zzLt(cur.tip[cur.next], ac.tip[ac.next]),
					zzAll(zzEq(cur.tip[cur.next], ac.tip[ac.next]), ac.sec[ac.next] < cur.sec[cur.next]))
				zzAssert(!better, "no other account's head has a higher tip, or the same tip and an earlier arrival")
			}
		}
		if zzNondetBool() {
			it.Shift() // the transaction was included: the account's next nonce becomes its head
			cur.next++
			if cur.next >= len(cur.txs) || !cur.ok[cur.next] {
				cur.alive = false
			}
			zzReach("shift")
		} else {
			it.Pop() // the transaction failed: drop the whole account
			cur.alive = false
			zzReach("pop")
		}
	}
}

package trie

// Harness for C08 (Merkle proofs), package trie. Shares the key/value generators of C06.

// zzProofDB is a proof set: the nodes Prove emitted, looked up by hash.
type zzProofDB struct{ keys, vals [][]byte }

func (d *zzProofDB) Put(k, v []byte) error {
	d.keys = append(d.keys, append([]byte{}, k...))
	d.vals = append(d.vals, append([]byte{}, v...))
	return nil
}
func (d *zzProofDB) Delete(k []byte) error { return nil }
func (d *zzProofDB) Has(k []byte) (bool, error) {
	v, _ := d.Get(k)
	return v != nil, nil
}
func (d *zzProofDB) Get(k []byte) ([]byte, error) {
	for i := range d.keys {
		if zzBytesEq(d.keys[i], k) {
			return d.vals[i], nil
		}
	}
	return nil, nil
}

// The proof a trie produces for a key (present or absent) verifies to the trie's value; with
// one genuine node left out, verification fails or still returns the true value.
func zzH_C08_prove_verify() {
	n := zzBound("KEYS")
	kl := zzBound("KEYLEN")
	keys, vals := make([][]byte, n), make([][]byte, n)
	t := NewEmpty(nil)
	// keys of 1..KEYLEN bytes: a key may be a strict prefix of another (its value then sits in the
	// value slot of a branch node)
	for i := range keys {
		keys[i], vals[i] = zzKey(zzKeyLen(kl)), zzVal()
		t.Update(keys[i], vals[i])
	}
	root := t.Hash()
	q := zzKey(zzKeyLen(kl))
	var model []byte
	for i := range keys {
		if zzBytesEq(keys[i], q) {
			model = vals[i]
		}
	}
	db := &zzProofDB{}
	zzAssert(t.Prove(q, db) == nil, "proving on an in-memory trie cannot fail")
	zzAssert(len(db.keys) >= 1, "a proof holds at least the root node")
	val, err := VerifyProof(root, q, db)
	zzAssert(err == nil, "the trie's own proof verifies")
	zzAssert(zzBytesEq(val, model), "verification returns exactly the trie's value (nothing for an absent key)")
	if model != nil {
		zzReach("present")
	} else {
		zzReach("absent")
	}
	// omission of one genuine node
	k := zzChoice(len(db.keys))
	short := &zzProofDB{}
	for i := range db.keys {
		if i != k {
			short.Put(db.keys[i], db.vals[i])
		}
	}
	val2, err2 := VerifyProof(root, q, short)
	zzAssert(err2 != nil || zzBytesEq(val2, model), "an incomplete proof fails or still yields the true value")
	zzReach("omission")
}

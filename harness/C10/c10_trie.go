package trie

// Harnesses for C10 (hex-prefix / nibble / key-byte conversions), package trie.

// zzNibbles returns a slice of symbolic length n <= max whose elements are < 16.
func zzNibbles(max int) []byte { return zzNibblesRange(0, max) }

// zzNibblesRange: symbolic length in [min, max].
func zzNibblesRange(min, max int) []byte {
	n := zzNondetInt()
	zzAssume(n >= min)
	zzAssume(n <= max)
	h := zzNondetBytesN(n)
	for i := range h {
		zzAssume(h[i] < 16)
	}
	return h
}

func zzClone(b []byte) []byte {
	c := make([]byte, len(b))
	copy(c, b)
	return c
}

func zzH_C10_hex_compact_roundtrip() {
	h := zzNibblesRange(zzBound("NMIN"), zzBound("N"))
	n := len(h)
	term := zzNondetBool()
	hx := zzClone(h)
	if term {
		hx = append(hx, 16)
	}
	c := hexToCompact(hx)
	zzAssert(len(c) == n/2+1, "compact length is n/2+1")
	flag := c[0] >> 4
	want := byte(n & 1)
	if term {
		want |= 2
	}
	zzAssert(flag == want, "flag nibble is 2*terminator + odd")
	if n&1 == 0 {
		zzAssert(c[0]&0x0f == 0, "low nibble of the first byte is zero for even length")
	} else {
		zzAssert(c[0]&0x0f == h[0], "low nibble of the first byte is the first nibble for odd length")
	}
	back := compactToHex(c)
	zzAssert(zzBytesEq(back, hx), "compactToHex(hexToCompact(h)) == h")
	if len(hx) > 0 {
		ip := hexToCompactInPlace(zzClone(hx))
		zzAssert(zzBytesEq(ip, c), "hexToCompactInPlace agrees with hexToCompact byte for byte")
		zzReach("in-place")
	}
	if term {
		zzReach("leaf")
	} else {
		zzReach("extension")
	}
	zzObserve("compact", c)
}

func zzH_C10_compact_hex_roundtrip() {
	m := zzNondetInt()
	zzAssume(m >= 1)
	zzAssume(m >= zzBound("MMIN"))
	zzAssume(m <= zzBound("M"))
	c := zzNondetBytesN(m)
	flag := c[0] >> 4
	zzAssume(flag <= 3)
	zzAssume(zzImplies(flag&1 == 0, c[0]&0x0f == 0))
	hx := zzFixSlice(compactToHex(zzClone(c))) // the result starts at a flag-dependent offset
	nibbles := true
	for i := range hx {
		if i == len(hx)-1 && flag >= 2 {
			zzAssert(hx[i] == 16, "terminator present iff the leaf flag is set")
		} else {
			nibbles = zzAll(nibbles, hx[i] < 16)
		}
	}
	zzAssert(nibbles, "compactToHex yields nibbles")
	zzAssert(hasTerm(hx) == (flag >= 2), "hasTerm reflects the leaf flag")
	c2 := hexToCompact(hx)
	zzAssert(zzBytesEq(c2, c), "hexToCompact(compactToHex(c)) == c for every valid compact key")
	zzReach("valid-compact")
	zzObserve("hex", hx)
}

func zzH_C10_leaf_ext_disjoint() {
	a := zzNibbles(zzBound("N"))
	b := zzNibbles(zzBound("N"))
	leaf := hexToCompact(append(zzClone(a), 16))
	ext := hexToCompact(zzClone(b))
	zzAssert(!zzBytesEq(leaf, ext), "a leaf path and an extension path never share a compact encoding")
	// injectivity on extensions and on leaves
	ext2 := hexToCompact(zzClone(a))
	zzAssert(zzImplies(zzBytesEq(ext, ext2), zzBytesEq(a, b)), "hexToCompact is injective on terminator-free paths")
	leaf2 := hexToCompact(append(zzClone(b), 16))
	zzAssert(zzImplies(zzBytesEq(leaf, leaf2), zzBytesEq(a, b)), "hexToCompact is injective on terminated paths")
	zzReach("disjoint")
}

func zzH_C10_keybytes() {
	n := zzNondetInt()
	zzAssume(n >= 0)
	zzAssume(n <= zzBound("K"))
	k := zzNondetBytesN(n)
	hx := keybytesToHex(k)
	zzAssert(len(hx) == 2*n+1, "keybytesToHex length")
	for i := range hx {
		if i == len(hx)-1 {
			zzAssert(hx[i] == 16, "keybytesToHex ends with the terminator")
		} else {
			zzAssert(hx[i] < 16, "keybytesToHex yields nibbles")
		}
	}
	for i := range k {
		zzAssert(hx[2*i]*16+hx[2*i+1] == k[i], "nibbles are the high and low half of each key byte")
	}
	zzAssert(zzBytesEq(hexToKeybytes(hx), k), "hexToKeybytes(keybytesToHex(k)) == k")
	zzAssert(zzBytesEq(hexToKeybytes(hx[:len(hx)-1]), k), "hexToKeybytes without terminator")
	dst := make([]byte, 2*n+3)
	if n > 0 {
		w := writeHexKey(dst, k)
		zzAssert(zzBytesEq(w, hx[:len(hx)-1]), "writeHexKey is keybytesToHex without the terminator")
		zzReach("writeHexKey")
	}
	// compact form of a full key: 0x20 flag byte followed by the key
	c := hexToCompact(hx)
	zzAssert(zzAll(len(c) == n+1, c[0] == 0x20, zzBytesEq(c[1:], k)), "compact encoding of a full key is 0x20 followed by the key bytes")
	if n > 0 {
		odd := hx[1:]
		zzExpectPanic("hexToKeybytes on odd length", func() { hexToKeybytes(odd) })
		zzReach("odd-panics")
	}
	zzObserve("hex", hx)
}

func zzH_C10_prefix_len() {
	a := zzNondetBytes(zzBound("P"))
	b := zzNondetBytes(zzBound("P"))
	i := prefixLen(a, b)
	zzAssert(i >= 0, "prefixLen non-negative")
	zzAssert(i <= len(a), "prefixLen <= len(a)")
	zzAssert(i <= len(b), "prefixLen <= len(b)")
	zzAssert(zzBytesEq(a[:i], b[:i]), "the prefix of length prefixLen is common")
	if i < len(a) && i < len(b) {
		zzAssert(a[i] != b[i], "the prefix is maximal")
		zzReach("mismatch")
	} else {
		zzReach("exhausted")
	}
	zzObserve("i", i)
}

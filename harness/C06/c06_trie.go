package trie

import (
	"github.com/ethereum/go-ethereum/common"
)

// Harnesses for C06 (trie root and contents depend only on the key-value set), package trie.
// Tries are built over NewEmpty (no database reads); Keccak-f is an uninterpreted function,
// so two roots are equal exactly when the same node encodings were hashed.

// zzKey: n symbolic bytes whose nibbles are below ALPHA. Indexing a branch node forks once per
// possible nibble, so the alphabet bounds the number of trie shapes explored; the trie code treats
// all nibble values alike.
func zzKey(n int) []byte {
	k := zzNondetBytesN(n)
	a := byte(zzBound("ALPHA"))
	for i := range k {
		zzAssume(k[i]>>4 < a)
		zzAssume(k[i]&15 < a)
	}
	return k
}

// zzKeyLen: with VARLEN keys have 1..kl bytes, so that a key may be a strict prefix of another
// (its value then sits in the value slot of a branch node); otherwise exactly kl bytes.
func zzKeyLen(kl int) int {
	if zzBound("VARLEN") != 0 {
		return 1 + zzChoice(kl)
	}
	return kl
}

// zzVal draws a value whose length class decides whether the leaf is embedded in its parent
// (< 32 bytes encoded) or referenced by hash.
func zzVal() []byte {
	n := 1
	if zzBound("VALS") >= 5 {
		// also the lengths around which a leaf's own encoding crosses 32 bytes
		lens := [...]int{1, 27, 28, 29, 30, 33}
		n = lens[zzChoice(len(lens))]
	} else if zzBound("VALS") == 4 {
		lens := [...]int{1, 29, 33} // 29: a leaf below a branch encodes to exactly 32 bytes
		n = lens[zzChoice(len(lens))]
	} else if zzBound("VALS") >= 2 {
		lens := [...]int{1, 33}
		n = lens[zzChoice(len(lens))]
	}
	v := zzNondetBytesN(n)
	if zzBound("VALS") == 3 {
		zzAssume(v[0] != 0) // any non-empty value, including single bytes that are their own encoding
	} else {
		zzAssume(v[0] >= 0x80) // one RLP size class per length
	}
	return v
}

func zzRoot(keys, vals [][]byte, order []int) common.Hash {
	t := NewEmpty(nil)
	for _, i := range order {
		if err := t.Update(keys[i], vals[i]); err != nil {
			zzAssert(false, "update on an in-memory trie cannot fail")
		}
	}
	return t.Hash()
}

func zzDistinct(keys [][]byte) {
	for i := range keys {
		for j := 0; j < i; j++ {
			zzAssume(!zzBytesEq(keys[i], keys[j]))
		}
	}
}

// Root is independent of insertion order.
func zzH_C06_order() {
	n := zzBound("KEYS")
	kl := zzBound("KEYLEN")
	keys, vals := make([][]byte, n), make([][]byte, n)
	for i := range keys {
		keys[i], vals[i] = zzKey(zzKeyLen(kl)), zzVal()
	}
	zzDistinct(keys)
	fwd, rev, rot := make([]int, n), make([]int, n), make([]int, n)
	for i := 0; i < n; i++ {
		fwd[i], rev[i], rot[i] = i, n-1-i, (i+1)%n
	}
	r1 := zzRoot(keys, vals, fwd)
	r2 := zzRoot(keys, vals, rev)
	zzAssert(r1 == r2, "root is the same for reversed insertion order")
	if n > 2 {
		r3 := zzRoot(keys, vals, rot)
		zzAssert(r1 == r3, "root is the same for rotated insertion order")
	}
	zzReach("order")
}

// zzFresh: the canonical root of a key-value set (an association list, later entries win,
// empty value = absent), built by plain sequential insertion into a new trie.
func zzFresh(keys, vals [][]byte) common.Hash {
	t := NewEmpty(nil)
	for i := range keys {
		last := true
		for j := i + 1; j < len(keys); j++ {
			if zzBytesEq(keys[i], keys[j]) {
				last = false
			}
		}
		if last && len(vals[i]) != 0 {
			t.Update(keys[i], vals[i])
		}
	}
	return t.Hash()
}

// Deletion is canonical: the root after inserts and deletes is the root of the surviving set.
func zzH_C06_delete() {
	n := zzBound("KEYS")
	kl := zzBound("KEYLEN")
	keys, vals := make([][]byte, n), make([][]byte, n)
	t := NewEmpty(nil)
	for i := range keys {
		keys[i], vals[i] = zzKey(zzKeyLen(kl)), zzVal()
		t.Update(keys[i], vals[i])
	}
	// delete some key (possibly absent, possibly one of the inserted ones), by Delete or by empty value
	d := zzKey(zzKeyLen(kl))
	if zzNondetBool() {
		zzAssert(t.Delete(d) == nil, "delete cannot fail in memory")
	} else {
		zzAssert(t.Update(d, nil) == nil, "update with an empty value is a deletion")
	}
	got := t.Hash()
	want := zzFresh(append(append([][]byte{}, keys...), d), append(append([][]byte{}, vals...), nil))
	zzAssert(got == want, "root after a deletion is the root of the surviving key-value set")
	// reads agree with the set
	q := zzKey(zzKeyLen(kl))
	v, err := t.Get(q)
	zzAssert(err == nil, "get cannot fail in memory")
	var model []byte
	for i := range keys {
		if zzBytesEq(keys[i], q) {
			model = vals[i]
		}
	}
	if zzBytesEq(d, q) {
		model = nil
	}
	zzAssert(zzBytesEq(v, model), "Get returns the latest value of the key, nothing for absent or deleted keys")
	zzReach("deleted")
}

// StackTrie (keys in ascending order) computes the same root as Trie.
func zzH_C06_stack() {
	n := zzBound("KEYS")
	kl := zzBound("KEYLEN")
	keys, vals := make([][]byte, n), make([][]byte, n)
	st := NewStackTrie(nil)
	for i := range keys {
		keys[i], vals[i] = zzKey(kl), zzVal()
		if i > 0 {
			zzAssume(bytesLess(keys[i-1], keys[i])) // strictly ascending insertion, as StackTrie requires
		}
		zzAssert(st.Update(keys[i], vals[i]) == nil, "ascending insert succeeds")
	}
	zzAssert(st.Hash() == zzFresh(keys, vals), "StackTrie root equals Trie root for the same set")
	zzReach("stack")
}

func bytesLess(a, b []byte) bool {
	lt, eq := false, true
	for i := 0; i < len(a) && i < len(b); i++ {
		lt = zzAny(lt, zzAll(eq, a[i] < b[i]))
		eq = zzAll(eq, a[i] == b[i])
	}
	return lt
}

// UpdateBatch (which applies large batches per root child concurrently) leaves the root of the
// resulting key-value set, also when the batch deletes whole children of the root.
func zzH_C06_batch() {
	kl := zzBound("KEYLEN")
	t := NewEmpty(nil)
	var keys, vals [][]byte
	// base: three keys under three different root children
	for i := 0; i < 3; i++ {
		k := zzKey(kl)
		zzAssume(k[0]>>4 == byte(i))
		v := zzVal()
		t.Update(k, v)
		keys, vals = append(keys, k), append(vals, v)
	}
	t.Hash() // the base trie has been hashed before (cached node hashes must be invalidated by the batch)
	var bk, bv [][]byte
	for j := 0; j < 4; j++ {
		var k []byte
		if j >= 3 || j < zzBound("FREE")-1 {
			k = zzKey(kl) // any key (the last entry always; FREE-1 of the first three)
		} else {
			k = keys[j] // directed: touch a base key
		}
		var v []byte // a deletion is requested by a nil value ...
		if zzNondetBool() {
			v = zzVal()
		} else if zzNondetBool() {
			v = []byte{} // ... or by an empty, non-nil one
		}
		bk, bv = append(bk, k), append(bv, v)
	}
	zzAssert(t.UpdateBatch(bk, bv) == nil, "batch update cannot fail in memory")
	got := t.Hash()
	want := zzFresh(append(keys, bk...), append(vals, bv...))
	zzAssert(got == want, "root after UpdateBatch is the root of the resulting key-value set")
	zzReach("batch")
}

// The root does not depend on how many updates are pending (100 or more switch the hasher to
// its concurrent mode).
func zzH_C06_parallel_hash() {
	n := zzBound("KEYS")
	kl := zzBound("KEYLEN")
	keys, vals := make([][]byte, n), make([][]byte, n)
	t := NewEmpty(nil)
	for i := range keys {
		keys[i], vals[i] = zzKey(kl), zzVal()
		t.Update(keys[i], vals[i])
	}
	t.unhashed = 100 // as after >= 100 updates (e.g. repeated overwrites) since the last Hash
	zzAssert(t.Hash() == zzFresh(keys, vals), "root is independent of the number of pending updates")
	zzReach("parallel")
}

package core

import (
	"math/big"

	"github.com/ethereum/go-ethereum/common"
	"github.com/ethereum/go-ethereum/core/tracing"
	"github.com/ethereum/go-ethereum/core/vm"
	"github.com/ethereum/go-ethereum/params"
	"github.com/holiman/uint256"
)

// Harnesses for C31 (transaction-level settlement and the block gas pool), package core.

const zzLim = uint64(1) << 61

// zzState implements the two StateDB methods settlement uses; any other method
// would be a nil-pointer panic, i.e. reported.
type zzState struct {
	vm.StateDB
	refund   uint64
	credited []*uint256.Int
	to       []common.Address
}

func (s *zzState) GetRefund() uint64 { return s.refund }
func (s *zzState) AddBalance(a common.Address, v *uint256.Int, _ tracing.BalanceChangeReason) uint256.Int {
	s.credited = append(s.credited, new(uint256.Int).Set(v))
	s.to = append(s.to, a)
	return uint256.Int{}
}

func zzRulesC31() (params.Rules, *params.ChainConfig) {
	r := params.Rules{IsLondon: zzNondetBool(), IsPrague: zzNondetBool(), IsAmsterdam: zzNondetBool()}
	zzAssume(zzImplies(r.IsPrague, r.IsLondon))
	zzAssume(zzImplies(r.IsAmsterdam, r.IsPrague))
	cfg := &params.ChainConfig{}
	if r.IsLondon {
		cfg.LondonBlock = big.NewInt(0)
	}
	return r, cfg
}

// zzPool is a block gas pool in a state NewGasPool + Check/Charge calls can reach.
func zzPool(amsterdam bool) *GasPool {
	gp := &GasPool{initial: zzNondetU64(), cumulativeUsed: zzNondetU64()}
	zzAssume(gp.initial <= zzLim)
	zzAssume(gp.cumulativeUsed <= zzLim)
	if amsterdam {
		gp.cumulativeExecution, gp.cumulativeState = zzNondetU64(), zzNondetU64()
		zzAssume(gp.cumulativeExecution <= gp.initial)
		zzAssume(gp.cumulativeState <= gp.initial)
		gp.remaining = gp.initial - gp.cumulativeExecution
	} else {
		gp.remaining = zzNondetU64()
		zzAssume(gp.remaining <= gp.initial)
	}
	return gp
}

// settleGas from any state the transaction's gas budget can be in when execution ends.
func zzH_C31_settle() {
	rules, cfg := zzRulesC31()
	gasLimit, intrinsic := zzNondetU64(), zzNondetU64()
	e0, s0 := zzNondetU64(), zzNondetU64()
	zzAssume(gasLimit <= zzLim)
	zzAssume(e0 <= gasLimit)
	zzAssume(s0 <= gasLimit)
	zzAssume(intrinsic <= gasLimit)
	zzAssume(e0+s0 == gasLimit-intrinsic) // initRuntimeGasBudget (harness init_budget)
	g := vm.GasBudget{ExecutionGas: zzNondetU64(), StateGas: zzNondetU64(), UsedExecutionGas: zzNondetU64(),
		UsedStateGas: zzNondetI64(), Spilled: zzNondetU64()}
	// frame invariant (core/vm harnesses: preserved by every budget operation and by Forward/Absorb)
	zzAssume(zzAll(g.ExecutionGas <= e0, g.UsedExecutionGas <= e0, g.Spilled <= e0,
		g.ExecutionGas+g.UsedExecutionGas+g.Spilled == e0,
		g.StateGas <= zzLim, g.UsedStateGas >= 0, g.UsedStateGas <= int64(zzLim),
		int64(g.StateGas)+g.UsedStateGas-int64(g.Spilled) == int64(s0)))
	floor := zzNondetU64()
	zzAssume(floor <= gasLimit) // execute() rejects a gas limit below the calldata floor
	state := &zzState{refund: zzNondetU64()}
	gp := zzPool(rules.IsAmsterdam)
	price := uint256.Int{zzNondetU64(), zzNondetU64(), 0, 0}
	from := common.Address{1}
	st := &stateTransition{gp: gp, msg: &Message{From: from, GasLimit: gasLimit, GasPrice: &price},
		gasRemaining: g, state: state, evm: vm.ZZBareEVM(cfg, big.NewInt(10))}
	pool0 := *gp

	gasUsed, peak, err := st.settleGas(rules, floor)

	// EIP-8037 / EIP-3529 / EIP-7623, literally
	before := gasLimit - g.ExecutionGas - g.StateGas
	txState := uint64(g.UsedStateGas)
	q := uint64(2)
	if rules.IsLondon {
		q = 5
	}
	refund := before / q
	if state.refund < refund {
		refund = state.refund
	}
	used := before - refund
	wantPeak := before
	if rules.IsPrague && used < floor {
		used = floor
		if floor > wantPeak {
			wantPeak = floor
		}
	}
	txExec := before - txState
	if floor > txExec {
		txExec = floor
	}
	blockFull := false
	if rules.IsAmsterdam {
		ce, cs := pool0.cumulativeExecution+txExec, pool0.cumulativeState+txState
		blockFull = ce > pool0.initial || cs > pool0.initial
	}
	if blockFull {
		zzAssert(err != nil, "a transaction that overflows the block budget is refused")
		zzAssert(len(state.credited) == 0, "a refused transaction is not refunded")
		zzAssert(*gp == pool0, "a refused transaction leaves the pool unchanged")
		zzReach("block-full")
		return
	}
	zzAssert(err == nil, "settlement succeeds for every state satisfying the frame invariant")
	zzAssert(gasUsed == used, "gas used = gas consumed - min(consumed/quotient, refund counter), raised to the calldata floor")
	zzAssert(peak == wantPeak, "peak usage")
	zzAssert(gasUsed <= gasLimit, "never more than the gas limit is used")
	left := gasLimit - used
	if left > 0 {
		want := new(uint256.Int).Mul(uint256.NewInt(left), &price)
		zzAssert(len(state.credited) == 1 && state.to[0] == from, "the sender is credited once")
		zzAssert(state.credited[0].Eq(want), "the sender gets back (gas limit - gas used) x gas price")
	} else {
		zzAssert(len(state.credited) == 0, "nothing to give back")
	}
	if rules.IsAmsterdam {
		zzAssert(gp.cumulativeExecution == pool0.cumulativeExecution+txExec, "block execution gas")
		zzAssert(gp.cumulativeState == pool0.cumulativeState+txState, "block state gas")
		zzAssert(gp.Used() <= gp.initial, "block usage within the block gas limit")
		zzReach("amsterdam")
	} else {
		zzAssert(gp.remaining == pool0.remaining+left, "unused gas returns to the block pool")
		zzReach("legacy")
	}
	zzAssert(gp.cumulativeUsed == pool0.cumulativeUsed+used, "receipt gas accumulates")
	zzObserve("used", gasUsed)
}

// initRuntimeGasBudget: the initial split of the transaction's gas.
func zzH_C31_init_budget() {
	rules, cfg := zzRulesC31()
	gasLimit, intrinsic := zzNondetU64(), zzNondetU64()
	zzAssume(gasLimit <= zzLim)
	zzAssume(intrinsic <= gasLimit) // execute() checks the limit against the intrinsic gas first
	if rules.IsAmsterdam {
		zzAssume(intrinsic <= params.MaxTxGas) // ... and against the cap on the regular dimension
	}
	st := &stateTransition{msg: &Message{GasLimit: gasLimit}, evm: vm.ZZBareEVM(cfg, big.NewInt(10))}
	st.initRuntimeGasBudget(rules, intrinsic)
	g := st.gasRemaining
	zzAssert(g.ExecutionGas+g.StateGas == gasLimit-intrinsic, "everything but the intrinsic gas is handed to execution")
	zzAssert(g.UsedExecutionGas == 0 && g.UsedStateGas == 0 && g.Spilled == 0, "nothing used yet")
	if rules.IsAmsterdam {
		zzAssert(g.ExecutionGas <= 1<<24-intrinsic, "regular gas capped at TX_MAX_GAS_LIMIT - intrinsic")
		zzAssert(g.StateGas == 0 || g.ExecutionGas == 1<<24-intrinsic, "the reservoir only holds what exceeds the cap")
		zzReach("amsterdam")
	} else {
		zzAssert(g.StateGas == 0, "no reservoir before Amsterdam")
		zzReach("legacy")
	}
}

// One step of the block gas pool from any reachable state.
func zzH_C31_pool_steps() {
	ams := zzNondetBool()
	gp := zzPool(ams)
	pool0 := *gp
	a, b, c := zzNondetU64(), zzNondetU64(), zzNondetU64()
	zzAssume(a <= zzLim)
	zzAssume(b <= zzLim)
	zzAssume(c <= zzLim)
	used0 := gp.Used() // must not panic on reachable pools
	zzAssert(used0 <= gp.initial, "block usage within the limit")
	switch zzChoice(4) {
	case 0:
		if ams {
			return
		}
		err := gp.CheckGasLegacy(a)
		zzAssert((err == nil) == (a <= pool0.remaining), "a reservation succeeds iff it fits")
		if err == nil {
			zzAssert(gp.remaining == pool0.remaining-a, "reservation is deducted")
		} else {
			zzAssert(*gp == pool0, "failed reservation changes nothing")
		}
		zzReach("check-legacy")
	case 1:
		if !ams {
			return
		}
		err := gp.CheckGasAmsterdam(a, b)
		zzAssert((err == nil) == (pool0.cumulativeExecution+a <= pool0.initial && pool0.cumulativeState+b <= pool0.initial), "fits in both dimensions")
		zzAssert(*gp == pool0, "checking reserves nothing under Amsterdam")
		zzReach("check-amsterdam")
	case 2:
		if ams {
			return
		}
		zzAssume(pool0.remaining+a <= pool0.initial) // what is returned was reserved before
		err := gp.ChargeGasLegacy(a, b)
		zzAssert(err == nil, "returning reserved gas cannot overflow")
		zzAssert(gp.remaining == pool0.remaining+a && gp.cumulativeUsed == pool0.cumulativeUsed+b, "legacy settlement")
		zzReach("charge-legacy")
	default:
		if !ams {
			return
		}
		err := gp.ChargeGasAmsterdam(a, b, c)
		fits := pool0.cumulativeExecution+a <= pool0.initial && pool0.cumulativeState+b <= pool0.initial
		zzAssert((err == nil) == fits, "charged iff both dimensions fit")
		if err != nil {
			zzAssert(*gp == pool0, "failed charge changes nothing")
		} else {
			zzAssert(gp.remaining == gp.initial-gp.cumulativeExecution, "remaining tracks the execution dimension")
		}
		zzReach("charge-amsterdam")
	}
	zzAssert(gp.Used() <= gp.initial, "block usage stays within the limit")
	snap := gp.Snapshot()
	other := &GasPool{}
	other.Set(snap)
	zzAssert(*other == *gp, "Snapshot/Set copy every field")
}

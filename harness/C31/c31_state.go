package state

import (
	"github.com/ethereum/go-ethereum/common"
	"github.com/ethereum/go-ethereum/core/types"
	"github.com/holiman/uint256"
)

// ZZLoadedState assembles a StateDB that holds one account, already loaded, whose storage slot
// `slot` has been read in this block with committed value `origin` (overlay helper for the
// harnesses in core/vm: every operation on that account and slot stays in memory).
func ZZLoadedState(addr common.Address, slot, origin common.Hash) *StateDB {
	s := &StateDB{
		stateObjects:         map[common.Address]*stateObject{},
		stateObjectsDestruct: map[common.Address]*stateObject{},
		mutations:            map[common.Address]*mutation{},
		journal:              newJournal(),
		accessList:           newAccessList(),
		transientStorage:     newTransientStorage(),
	}
	acct := &types.StateAccount{Nonce: 1, Balance: uint256.NewInt(1), Root: types.EmptyRootHash, CodeHash: types.EmptyCodeHash[:]}
	obj := newObject(s, addr, acct)
	obj.originStorage[slot] = origin
	s.stateObjects[addr] = obj
	return s
}

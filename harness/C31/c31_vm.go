package vm

import (
	"math/big"

	"github.com/ethereum/go-ethereum/common"
	"github.com/ethereum/go-ethereum/core/state"
	"github.com/holiman/uint256"

	"github.com/ethereum/go-ethereum/params"
)

// Harnesses for C31 (two-dimensional gas accounting), package core/vm.
//
// Frame invariant Inv(g; E0, S0), over the integers:
//   (a) g.ExecutionGas + g.UsedExecutionGas + g.Spilled == E0
//   (b) g.StateGas + g.UsedStateGas - g.Spilled         == S0
//   (c) E0, S0, g.StateGas <= 2^61, |g.UsedStateGas| <= 2^61
// (c) keeps the harness' own arithmetic free of wrap-around; real gas limits
// are bounded by the block gas limit (< 2^63) and in practice by 2^24..2^32.

const zzLim = uint64(1) << 61

func zzNondetBudget() GasBudget {
	return GasBudget{
		ExecutionGas:     zzNondetU64(),
		StateGas:         zzNondetU64(),
		UsedExecutionGas: zzNondetU64(),
		UsedStateGas:     zzNondetI64(),
		Spilled:          zzNondetU64(),
	}
}

// zzInv reports Inv(g; e0, s0) as one term (no short-circuit forks).
func zzInv(g GasBudget, e0, s0 uint64) bool {
	return zzAll(e0 <= zzLim, s0 <= zzLim,
		g.ExecutionGas <= e0, g.UsedExecutionGas <= e0, g.Spilled <= e0,
		g.ExecutionGas+g.UsedExecutionGas+g.Spilled == e0,
		g.StateGas <= zzLim, g.UsedStateGas <= int64(zzLim), g.UsedStateGas >= -int64(zzLim),
		int64(g.StateGas)+g.UsedStateGas-int64(g.Spilled) == int64(s0))
}

// zzInvPost is the invariant with the magnitude bounds of (c) relaxed (they
// are harness artefacts); the equations are evaluated on values < 2^63 so
// they do not wrap.
func zzInvPost(g GasBudget, e0, s0 uint64) bool {
	return zzAll(g.ExecutionGas <= e0, g.UsedExecutionGas <= e0, g.Spilled <= e0,
		g.ExecutionGas+g.UsedExecutionGas+g.Spilled == e0,
		g.StateGas <= 4*zzLim-1, g.UsedStateGas <= int64(2*zzLim), g.UsedStateGas >= -int64(2*zzLim),
		int64(g.StateGas)+g.UsedStateGas-int64(g.Spilled) == int64(s0))
}

func zzH_C31_charge() {
	g := zzNondetBudget()
	e0, s0 := zzNondetU64(), zzNondetU64()
	zzAssume(zzInv(g, e0, s0))
	cost := GasCosts{ExecutionGas: zzNondetU64(), StateGas: zzNondetU64()}
	pre := g
	prior, ok := g.Charge(cost)
	zzAssert(prior == pre, "Charge returns the pre-state")
	if ok {
		zzReach("charge-ok")
		zzAssert(zzInvPost(g, e0, s0), "Charge preserves the frame invariant")
		// total available gas drops by exactly the cost, in Z
		zzAssert(cost.ExecutionGas <= pre.ExecutionGas, "execution part affordable")
		zzAssert(cost.StateGas <= 2*zzLim, "state part bounded by what was available")
		zzAssert(g.ExecutionGas+g.StateGas+cost.ExecutionGas+cost.StateGas == pre.ExecutionGas+pre.StateGas, "available gas decreases by exactly the cost")
		zzAssert(g.UsedExecutionGas == pre.UsedExecutionGas+cost.ExecutionGas, "execution usage grows by the execution cost")
		zzAssert(g.UsedStateGas == pre.UsedStateGas+int64(cost.StateGas), "state usage grows by the state cost")
		if cost.StateGas <= pre.StateGas {
			zzAssert(g.Spilled == pre.Spilled, "no spill when the reservoir covers the state cost")
			zzAssert(g.StateGas == pre.StateGas-cost.StateGas, "reservoir pays first")
		} else {
			zzReach("charge-spill")
			zzAssert(g.StateGas == 0, "reservoir exhausted before spilling")
			zzAssert(g.Spilled == pre.Spilled+(cost.StateGas-pre.StateGas), "spill is exactly the uncovered part")
		}
	} else {
		zzReach("charge-oog")
		zzAssert(g == pre, "failed Charge leaves the budget unchanged")
	}
	zzObserve("ok", ok)
	zzObserve("exec", g.ExecutionGas)
	zzObserve("state", g.StateGas)
	zzObserve("usedstate", g.UsedStateGas)
}

func zzH_C31_afford_iff_charge() {
	g := zzNondetBudget()
	cost := GasCosts{ExecutionGas: zzNondetU64(), StateGas: zzNondetU64()}
	can := g.CanAfford(cost)
	_, ok := g.Charge(cost)
	zzAssert(can == ok, "CanAfford agrees with Charge for every budget and cost")
	if ok {
		zzReach("afford")
	} else {
		zzReach("cannot-afford")
	}
	zzObserve("can", can)
}

func zzH_C31_charge_exec_only() {
	g := zzNondetBudget()
	e0, s0 := zzNondetU64(), zzNondetU64()
	zzAssume(zzInv(g, e0, s0))
	r := zzNondetU64()
	pre := g
	ok := g.ChargeExecutionOnly(r)
	// must agree with the general charge on an execution-only cost
	h := pre
	_, ok2 := h.Charge(GasCosts{ExecutionGas: r})
	zzAssert(ok == ok2, "ChargeExecutionOnly accepts exactly when Charge does")
	zzAssert(g == h, "ChargeExecutionOnly has the same effect as Charge with an execution-only cost")
	if ok {
		zzReach("ok")
		zzAssert(zzInvPost(g, e0, s0), "ChargeExecutionOnly preserves the frame invariant")
	} else {
		zzReach("oog")
		zzAssert(g == pre, "failed ChargeExecutionOnly leaves the budget unchanged")
	}
	// the two convenience wrappers
	a, b := pre, pre
	pa, oka := a.ChargeExecution(r)
	pb, okb := b.ChargeState(r)
	c, d := pre, pre
	_, okc := c.Charge(GasCosts{ExecutionGas: r})
	_, okd := d.Charge(GasCosts{StateGas: r})
	zzAssert(zzAll(pa == pre, pb == pre, oka == okc, okb == okd, a == c, b == d), "ChargeExecution/ChargeState are Charge on one dimension")
	zzObserve("ok", ok)
	zzObserve("exec", g.ExecutionGas)
}

func zzH_C31_refund_state() {
	g := zzNondetBudget()
	e0, s0 := zzNondetU64(), zzNondetU64()
	zzAssume(zzInv(g, e0, s0))
	s := zzNondetU64()
	zzAssume(s <= zzLim) // a refund returns state gas charged earlier in the transaction
	pre := g
	g.RefundState(s)
	zzAssert(zzInvPost(g, e0, s0), "RefundState preserves the frame invariant")
	zzAssert(g.ExecutionGas+g.StateGas == pre.ExecutionGas+pre.StateGas+s, "available gas grows by exactly the refund")
	zzAssert(g.UsedStateGas == pre.UsedStateGas-int64(s), "state usage shrinks by the refund")
	zzAssert(g.UsedExecutionGas == pre.UsedExecutionGas, "execution usage untouched by a state refund")
	if s <= pre.Spilled {
		zzReach("repay-only")
		zzAssert(zzAll(g.StateGas == pre.StateGas, g.Spilled == pre.Spilled-s), "refund repays borrowed execution gas first")
	} else {
		zzReach("repay-and-refill")
		zzAssert(zzAll(g.Spilled == 0, g.StateGas == pre.StateGas+(s-pre.Spilled)), "remainder refills the reservoir")
	}
	zzObserve("exec", g.ExecutionGas)
	zzObserve("state", g.StateGas)
	zzObserve("spilled", g.Spilled)
}

func zzH_C31_drain() {
	g := zzNondetBudget()
	e0, s0 := zzNondetU64(), zzNondetU64()
	zzAssume(zzInv(g, e0, s0))
	pre := g
	g.DrainExecution()
	zzAssert(zzInvPost(g, e0, s0), "DrainExecution preserves the frame invariant")
	zzAssert(zzAll(g.ExecutionGas == 0, g.StateGas == pre.StateGas, g.UsedStateGas == pre.UsedStateGas, g.Spilled == pre.Spilled), "DrainExecution burns execution gas only")
	zzReach("drained")
	zzObserve("used", g.UsedExecutionGas)
}

func zzH_C31_exit_forms() {
	g := zzNondetBudget()
	e0, s0 := zzNondetU64(), zzNondetU64()
	zzAssume(zzInv(g, e0, s0))

	ok := g.ExitSuccess()
	zzAssert(ok == g, "ExitSuccess hands back the running budget unchanged")

	rv := g.ExitRevert()
	zzAssert(rv.StateGas == s0, "a reverted frame hands back the whole state reservoir it started with")
	zzAssert(rv.ExecutionGas == g.ExecutionGas+g.Spilled, "a reverted frame gets the borrowed execution gas back")
	zzAssert(zzAll(rv.UsedStateGas == 0, rv.Spilled == 0), "a reverted frame reports no state usage")
	zzAssert(zzInvPost(rv, e0, s0), "ExitRevert result satisfies the frame invariant")
	zzAssert(rv.ExecutionGas+rv.StateGas <= e0+s0, "ExitRevert never hands back more than was given")

	hl := g.ExitHalt()
	zzAssert(hl.StateGas == s0, "a halted frame hands back the whole state reservoir it started with")
	zzAssert(hl.ExecutionGas == 0, "a halted frame returns no execution gas")
	zzAssert(zzAll(hl.UsedStateGas == 0, hl.Spilled == 0), "a halted frame reports no state usage")
	zzAssert(hl.UsedExecutionGas == e0, "a halted frame has consumed all execution gas it was given")
	zzAssert(zzInvPost(hl, e0, s0), "ExitHalt result satisfies the frame invariant")

	// Exit dispatch
	zzAssert(g.Exit(nil) == ok, "Exit(nil) is ExitSuccess")
	zzAssert(g.Exit(ErrExecutionReverted) == rv, "Exit(ErrExecutionReverted) is ExitRevert")
	zzAssert(g.Exit(ErrOutOfGas) == hl, "Exit(other error) is ExitHalt")
	zzAssert(g.Exit(ErrInvalidJump) == hl, "Exit(other error) is ExitHalt (2)")
	zzReach("exit-forms")
	zzObserve("rv.exec", rv.ExecutionGas)
	zzObserve("rv.state", rv.StateGas)
	zzObserve("hl.used", hl.UsedExecutionGas)
}

// zzChildAfter returns an arbitrary budget a child frame can end with, given
// that it started from NewGasBudget(x, sp): any c with Inv(c; x, sp).
func zzChildAfter(x, sp uint64) GasBudget {
	c := zzNondetBudget()
	zzAssume(zzInv(c, x, sp))
	return c
}

func zzH_C31_forward_absorb() {
	p := zzNondetBudget()
	e0, s0 := zzNondetU64(), zzNondetU64()
	zzAssume(zzInv(p, e0, s0))
	x := zzNondetU64()
	all := zzNondetBool()
	if all {
		x = p.ExecutionGas
	}
	zzAssume(x <= p.ExecutionGas) // documented caller obligation of Forward/forwardGas
	pre := p
	var c GasBudget
	if all {
		c = p.ForwardAll()
	} else {
		c = p.Forward(x)
	}
	zzAssert(c == NewGasBudget(x, pre.StateGas), "child starts with the forwarded execution gas and the whole reservoir")
	zzAssert(zzAll(p.StateGas == 0, p.ExecutionGas == pre.ExecutionGas-x, p.UsedExecutionGas == pre.UsedExecutionGas+x), "parent is debited the forwarded gas")

	end := zzChildAfter(x, pre.StateGas)
	var left GasBudget
	switch zzChoice(3) {
	case 0:
		left = end.ExitSuccess()
		zzReach("child-success")
	case 1:
		left = end.ExitRevert()
		zzReach("child-revert")
		zzAssert(left.StateGas == pre.StateGas, "reverted child returns the reservoir it was given")
	default:
		left = end.ExitHalt()
		zzReach("child-halt")
		zzAssert(left.StateGas == pre.StateGas, "halted child returns the reservoir it was given")
		zzAssert(left.ExecutionGas == 0, "halted child returns no execution gas")
	}
	zzAssert(left.ExecutionGas+left.Spilled <= x, "child cannot hand back more execution gas than was forwarded")
	p.Absorb(left)
	zzAssert(zzInvPost(p, e0, s0), "Forward + child + Absorb preserves the parent's frame invariant")
	// conservation over the integers: what the parent can still spend plus what was consumed
	zzAssert(p.ExecutionGas == pre.ExecutionGas-x+left.ExecutionGas, "parent regains exactly the child's leftover execution gas")
	zzAssert(p.StateGas == left.StateGas, "parent's reservoir is what the child hands back")
	zzObserve("p.exec", p.ExecutionGas)
	zzObserve("p.state", p.StateGas)
	zzObserve("p.used", p.UsedExecutionGas)
	zzObserve("p.usedstate", p.UsedStateGas)
	zzObserve("p.spilled", p.Spilled)
}

// Contract-level wrappers with a nil tracer behave like the GasBudget methods.
func zzH_C31_contract_wrappers() {
	g := zzNondetBudget()
	e0, s0 := zzNondetU64(), zzNondetU64()
	zzAssume(zzInv(g, e0, s0))
	amt := zzNondetU64()
	c := &Contract{Gas: g}
	ref := g
	lent := false
	switch zzChoice(5) {
	case 0:
		ok := c.chargeExecution(amt, nil, 0)
		_, ok2 := ref.ChargeExecution(amt)
		zzAssert(ok == ok2, "chargeExecution result")
		zzReach("chargeExecution")
	case 1:
		ok := c.chargeState(amt, nil, 0)
		_, ok2 := ref.ChargeState(amt)
		zzAssert(ok == ok2, "chargeState result")
		zzReach("chargeState")
	case 2:
		zzAssume(amt <= zzLim)
		c.refundState(amt, nil, 0)
		ref.RefundState(amt)
		zzReach("refundState")
	case 3:
		zzAssume(amt <= g.ExecutionGas)
		ch := c.forwardGas(amt, nil, 0)
		ch2 := ref.Forward(amt)
		zzAssert(ch == ch2, "forwardGas child budget")
		zzReach("forwardGas")
		lent = true
	default:
		zzAssume(amt <= g.ExecutionGas)
		ref.Forward(amt)
		c.Gas = ref
		left := zzChildAfter(amt, g.StateGas).Exit(nil)
		c.refundGas(left, nil, 0)
		ref.Absorb(left)
		zzReach("refundGas")
	}
	zzAssert(c.Gas == ref, "Contract gas wrapper has exactly the effect of the GasBudget method")
	if !lent {
		// (while gas is lent to a child the reservoir equation is suspended; it is
		// re-established by refundGas, which forward_absorb and case 4 check)
		zzAssert(zzInvPost(c.Gas, e0, s0), "Contract gas wrapper preserves the frame invariant")
	}
	zzObserve("exec", c.Gas.ExecutionGas)
	zzObserve("state", c.Gas.StateGas)
}

// ZZBareEVM is an EVM that carries only what transaction settlement reads: the chain
// configuration and the block number (overlay helper for the harnesses in package core).
func ZZBareEVM(cfg *params.ChainConfig, number *big.Int) *EVM {
	return &EVM{chainConfig: cfg, Context: BlockContext{BlockNumber: number}}
}

// ---- the real interpreter loop with the real SSTORE pricing (EIP-8037/8038) on a real StateDB ----

var zzAmsterdamTableC31 = newAmsterdamInstructionSet()

// One or two SSTOREs to the same slot, symbolic values, symbolic committed value, symbolic
// execution gas and state-gas reservoir: whatever happens (success, out of gas at any point),
// the frame's budget satisfies the two conservation equations, never reports more gas than it
// was given, and a store only takes effect if it was paid for.
func zzH_C31_run_sstore() {
	addr := common.Address{19: 0x42}
	slot := common.Hash{31: 1}
	var origin common.Hash
	origin[31] = zzNondetU8()
	sdb := state.ZZLoadedState(addr, slot, origin)
	perByte := zzNondetU64()
	zzAssume(perByte >= 1 && perByte <= 4096)
	evm := &EVM{table: &zzAmsterdamTableC31, arena: &stackArena{data: make([]uint256.Int, initialStackSize)},
		StateDB: sdb, Context: BlockContext{CostPerStateByte: perByte}}
	n := 1 + zzChoice(2)
	var code []byte
	var last byte
	for i := 0; i < n; i++ {
		last = zzNondetU8()
		code = append(code, byte(PUSH1), last, byte(PUSH1), 1, byte(SSTORE))
	}
	e0, s0 := zzNondetU64(), zzNondetU64()
	zzAssume(e0 <= 1<<40)
	zzAssume(s0 <= 1<<40)
	c := &Contract{address: addr, Code: code, Gas: GasBudget{ExecutionGas: e0, StateGas: s0}}
	_, err := evm.Run(c, nil, false)
	g := c.Gas
	zzAssert(zzAll(g.ExecutionGas <= e0, g.UsedExecutionGas <= e0, g.Spilled <= e0), "no execution-gas quantity exceeds what the frame was given")
	zzAssert(g.ExecutionGas+g.UsedExecutionGas+g.Spilled == e0, "execution gas left + used + spilled into state gas = given")
	zzAssert(int64(g.StateGas)+g.UsedStateGas-int64(g.Spilled) == int64(s0), "reservoir left + state gas used - spilled = reservoir given")
	zzAssert(g.StateGas <= s0+64*perByte, "the reservoir never grows beyond a refund of the slot it paid for")
	if err == nil {
		var want common.Hash
		want[31] = last
		zzAssert(sdb.GetState(addr, slot) == want, "after success the slot holds the last stored value")
		// every store costs at least the warm access; it cannot have been free
		zzAssert(g.UsedExecutionGas >= 100, "a successful store consumed at least the warm access cost")
		if n == 1 {
			// EIP-8037/8038 price of the first (cold) store to a slot, plus the two PUSH1
			exec, st := uint64(3+3+2100), uint64(0)
			if want != origin {
				exec += 10000 // STORAGE_WRITE
				if origin == (common.Hash{}) {
					st = 64 * perByte // a new slot is state growth
				}
			}
			zzAssert(g.UsedExecutionGas == exec, "execution gas charged for a cold store is access + write surcharge")
			zzAssert(g.UsedStateGas == int64(st), "state gas is charged exactly for creating a slot")
			wantRefund := uint64(0)
			if origin != (common.Hash{}) && want == (common.Hash{}) {
				wantRefund = 11616
			}
			zzAssert(sdb.GetRefund() == wantRefund, "clearing a slot earns the clear refund")
		}
		zzReach("stored")
	} else {
		zzReach("failed")
	}
	zzObserve("left", g.ExecutionGas)
}

package vm

// Harnesses for C31 (two-dimensional gas accounting), package core/vm.
//
// Frame invariant Inv(g; E0, S0), over the integers:
//   (a) g.ExecutionGas + g.UsedExecutionGas + g.Spilled == E0
//   (b) g.StateGas + g.UsedStateGas - g.Spilled         == S0
//   (c) E0, S0, g.StateGas <= 2^61, |g.UsedStateGas| <= 2^61
// (c) keeps the harness' own arithmetic free of wrap-around; real gas limits
// are bounded by the block gas limit (< 2^63) and in practice by 2^24..2^32.

const zzLim = uint64(1) << 61

func zzNondetBudget() GasBudget {
	return GasBudget{
		ExecutionGas:     zzNondetU64(),
		StateGas:         zzNondetU64(),
		UsedExecutionGas: zzNondetU64(),
		UsedStateGas:     zzNondetI64(),
		Spilled:          zzNondetU64(),
	}
}

// zzInv reports Inv(g; e0, s0) as one term (no short-circuit forks).
func zzInv(g GasBudget, e0, s0 uint64) bool {
	return zzAll(e0 <= zzLim, s0 <= zzLim,
		g.ExecutionGas <= e0, g.UsedExecutionGas <= e0, g.Spilled <= e0,
		g.ExecutionGas+g.UsedExecutionGas+g.Spilled == e0,
		g.StateGas <= zzLim, g.UsedStateGas <= int64(zzLim), g.UsedStateGas >= -int64(zzLim),
		int64(g.StateGas)+g.UsedStateGas-int64(g.Spilled) == int64(s0))
}

// zzInvPost is the invariant with the magnitude bounds of (c) relaxed (they
// are harness artefacts); the equations are evaluated on values < 2^63 so
// they do not wrap.
func zzInvPost(g GasBudget, e0, s0 uint64) bool {
	return zzAll(g.ExecutionGas <= e0, g.UsedExecutionGas <= e0, g.Spilled <= e0,
		g.ExecutionGas+g.UsedExecutionGas+g.Spilled == e0,
		g.StateGas <= 4*zzLim-1, g.UsedStateGas <= int64(2*zzLim), g.UsedStateGas >= -int64(2*zzLim),
		int64(g.StateGas)+g.UsedStateGas-int64(g.Spilled) == int64(s0))
}

func zzH_C31_charge() {
	g := zzNondetBudget()
	e0, s0 := zzNondetU64(), zzNondetU64()
	zzAssume(zzInv(g, e0, s0))
	cost := GasCosts{ExecutionGas: zzNondetU64(), StateGas: zzNondetU64()}
	pre := g
	prior, ok := g.Charge(cost)
	zzAssert(prior == pre, "Charge returns the pre-state")
	if ok {
		zzReach("charge-ok")
		zzAssert(zzInvPost(g, e0, s0), "Charge preserves the frame invariant")
		// total available gas drops by exactly the cost, in Z
		zzAssert(cost.ExecutionGas <= pre.ExecutionGas, "execution part affordable")
		zzAssert(cost.StateGas <= 2*zzLim, "state part bounded by what was available")
		zzAssert(g.ExecutionGas+g.StateGas+cost.ExecutionGas+cost.StateGas == pre.ExecutionGas+pre.StateGas, "available gas decreases by exactly the cost")
		zzAssert(g.UsedExecutionGas == pre.UsedExecutionGas+cost.ExecutionGas, "execution usage grows by the execution cost")
		zzAssert(g.UsedStateGas == pre.UsedStateGas+int64(cost.StateGas), "state usage grows by the state cost")
		if cost.StateGas <= pre.StateGas {
			zzAssert(g.Spilled == pre.Spilled, "no spill when the reservoir covers the state cost")
			zzAssert(g.StateGas == pre.StateGas-cost.StateGas, "reservoir pays first")
		} else {
			zzReach("charge-spill")
			zzAssert(g.StateGas == 0, "reservoir exhausted before spilling")
			zzAssert(g.Spilled == pre.Spilled+(cost.StateGas-pre.StateGas), "spill is exactly the uncovered part")
		}
	} else {
		zzReach("charge-oog")
		zzAssert(g == pre, "failed Charge leaves the budget unchanged")
	}
	zzObserve("ok", ok)
	zzObserve("exec", g.ExecutionGas)
	zzObserve("state", g.StateGas)
	zzObserve("usedstate", g.UsedStateGas)
}

func zzH_C31_afford_iff_charge() {
	g := zzNondetBudget()
	cost := GasCosts{ExecutionGas: zzNondetU64(), StateGas: zzNondetU64()}
	can := g.CanAfford(cost)
	_, ok := g.Charge(cost)
	zzAssert(can == ok, "CanAfford agrees with Charge for every budget and cost")
	if ok {
		zzReach("afford")
	} else {
		zzReach("cannot-afford")
	}
	zzObserve("can", can)
}

package core

import (
	"github.com/ethereum/go-ethereum/common"
	"github.com/ethereum/go-ethereum/core/types"
	"github.com/ethereum/go-ethereum/params"
	"github.com/holiman/uint256"
)

// Harnesses for C35 (intrinsic gas, calldata floor), package core.
//
// The reference is written with the numbers of the EIPs (2, 2028, 2930, 3860,
// 7702, 7623; for the Amsterdam rule set the numbers of EIP-2780/7976/7981 as
// pinned in this tree), not with the params constants, so that a changed
// constant is a disagreement.

func zzRulesC35() params.Rules {
	r := params.Rules{
		IsHomestead: zzNondetBool(),
		IsIstanbul:  zzNondetBool(),
		IsShanghai:  zzNondetBool(),
		IsPrague:    zzNondetBool(),
		IsAmsterdam: zzNondetBool(),
	}
	// forks are activated in order
	zzAssume(zzImplies(r.IsIstanbul, r.IsHomestead))
	zzAssume(zzImplies(r.IsShanghai, r.IsIstanbul))
	zzAssume(zzImplies(r.IsPrague, r.IsShanghai))
	zzAssume(zzImplies(r.IsAmsterdam, r.IsPrague))
	return r
}

// zzTxShape draws the parts of a transaction the gas formulas depend on.
func zzTxShape(maxData int) (data []byte, al types.AccessList, nAddr, nKeys uint64, auths []types.SetCodeAuthorization, from common.Address, to *common.Address, value *uint256.Int) {
	data = zzNondetBytes(maxData)
	// Shapes: access list {nil, empty, 1 tuple, 2 tuples} x authorizations {nil, empty, 1..2}
	// x recipient {creation, other, self} x value {nil, zero, symbolic}. With FULL=1 the
	// whole cross product is explored, otherwise a covering table of combinations.
	var sa, su, st, sv int
	if zzBound("FULL") != 0 {
		sa, su, st, sv = zzChoice(4), zzChoice(3), zzChoice(3), zzChoice(3)
	} else {
		tab := [...][4]int{{0, 0, 0, 0}, {1, 1, 1, 1}, {2, 2, 2, 2}, {3, 0, 1, 2}, {0, 2, 0, 2}, {2, 1, 1, 0}, {3, 2, 2, 1}}
		r := tab[zzChoice(len(tab))]
		sa, su, st, sv = r[0], r[1], r[2], r[3]
	}
	switch sa {
	case 0: // nil access list
	case 1:
		al = types.AccessList{}
	case 2:
		k := zzChoice(3)
		al = types.AccessList{{StorageKeys: make([]common.Hash, k)}}
		nAddr, nKeys = 1, uint64(k)
	case 3:
		k1, k2 := zzChoice(3), zzChoice(2)
		al = types.AccessList{{StorageKeys: make([]common.Hash, k1)}, {StorageKeys: make([]common.Hash, k2)}}
		nAddr, nKeys = 2, uint64(k1+k2)
	}
	switch su {
	case 0:
	case 1:
		auths = []types.SetCodeAuthorization{}
	case 2:
		auths = make([]types.SetCodeAuthorization, 1+zzChoice(2))
	}
	from[19] = 1
	switch st {
	case 0: // contract creation
	case 1:
		t := common.Address{19: 2}
		to = &t
	case 2: // self transfer
		t := from
		to = &t
	}
	switch sv {
	case 0:
	case 1:
		value = new(uint256.Int)
	case 2:
		v := uint256.Int{zzNondetU64(), zzNondetU64(), zzNondetU64(), zzNondetU64()}
		value = &v
	}
	return
}

func zzCountZero(data []byte) (z, nz uint64) {
	for i := 0; i < len(data); i++ {
		z += zzIte(data[i] == 0, 1, 0)
	}
	return z, uint64(len(data)) - z
}

// EIP-2780 base cost (as pinned here): 12000 for the sender, plus the recipient
// touch (3000 cold access, 12000 for a creation, nothing for a self transfer),
// plus 6000 for a value transfer to another existing-or-new account.
func zzSpecBase2780(create, self, hasValue bool) uint64 {
	g := uint64(12000)
	if !self {
		if create {
			g += 12000
		} else {
			g += 3000
		}
	}
	if hasValue && !self && !create {
		g += 6000
	}
	return g
}

func zzH_C35_intrinsic() {
	rules := zzRulesC35()
	data, al, nAddr, nKeys, auths, from, to, value := zzTxShape(zzBound("DATA"))
	create := to == nil
	self := to != nil && *to == from
	hasValue := value != nil && !value.IsZero()
	z, nz := zzCountZero(data)
	words := (uint64(len(data)) + 31) / 32

	got, err := IntrinsicGas(data, al, auths, from, to, value, rules)
	zzAssert(err == nil, "no overflow for transactions of realistic size")

	var want uint64
	switch {
	case rules.IsAmsterdam:
		want = zzSpecBase2780(create, self, hasValue)
	case create && rules.IsHomestead:
		want = 53000
	default:
		want = 21000
	}
	if rules.IsAmsterdam {
		want += uint64(len(auths)) * 7816
	} else {
		want += uint64(len(auths)) * 25000
	}
	if rules.IsIstanbul {
		want += nz * 16
	} else {
		want += nz * 68
	}
	want += z * 4
	if create && rules.IsShanghai {
		want += words * 2
	}
	if rules.IsAmsterdam {
		want += nAddr*2900 + nKeys*2000
		want += nAddr*20*16*4 + nKeys*32*16*4 // EIP-7981: access-list bytes are charged as floor tokens as well
	} else {
		want += nAddr*2400 + nKeys*1900
	}
	zzAssert(got == want, "IntrinsicGas equals the specification sum")
	zzReach("intrinsic")
	zzObserve("gas", got)
}

func zzH_C35_floor() {
	rules := zzRulesC35()
	data, al, nAddr, nKeys, _, from, to, value := zzTxShape(zzBound("DATA"))
	create := to == nil
	self := to != nil && *to == from
	hasValue := value != nil && !value.IsZero()
	z, nz := zzCountZero(data)

	got, err := FloorDataGas(rules, from, to, value, data, al)
	zzAssert(err == nil, "no overflow for transactions of realistic size")
	var want uint64
	if rules.IsAmsterdam {
		// EIP-7976: every calldata byte is 4 tokens at 16 gas; EIP-7981: so is every access-list byte
		tokens := uint64(len(data))*4 + nAddr*20*4 + nKeys*32*4
		want = zzSpecBase2780(create, self, hasValue) + tokens*16
	} else {
		// EIP-7623: tokens = zero_bytes + 4 * nonzero_bytes, 10 gas per token on top of 21000
		want = 21000 + (z+nz*4)*10
	}
	zzAssert(got == want, "FloorDataGas equals the specification")
	// the floor never undercuts the base cost of the transaction
	zzAssert(got >= 12000, "floor is at least the base cost")
	zzReach("floor")
	zzObserve("floor", got)
}

// toWordSize: ceil(size/32) for every 64-bit size, without wrap-around.
func zzH_C35_wordsize() {
	s := zzNondetU64()
	w := toWordSize(s)
	// w = ceil(s/32)  <=>  32*(w-1) < s <= 32*w, stated without overflow
	zzAssert(w <= 1<<59, "word count fits")
	if s == 0 {
		zzAssert(w == 0, "zero size needs zero words")
	} else {
		zzAssert(w >= 1, "non-zero size needs a word")
		zzAssert(s/32 <= w, "covers the size (quotient)")
		zzAssert(zzAny(s%32 == 0, s/32+1 == w), "rounds up when there is a remainder")
		zzAssert(zzAny(s%32 != 0, s/32 == w), "exact when size is a multiple of 32")
	}
	zzReach("wordsize")
	zzObserve("w", w)
}

package eip1559

import (
	"math/big"

	"github.com/ethereum/go-ethereum/core/types"
	"github.com/ethereum/go-ethereum/params"
)

// Harness for C35 (base fee), package consensus/misc/eip1559.
//
// Reference: EIP-1559 pseudo-code
//   target = parent.gas_limit // ELASTICITY_MULTIPLIER
//   used == target: base
//   used >  target: base + max(base * (used - target) // target // DENOMINATOR, 1)
//   used <  target: base - base * (target - used) // target // DENOMINATOR

func zzSpecBaseFee(base *big.Int, gasLimit, gasUsed, elasticity, denom uint64) *big.Int {
	target := gasLimit / elasticity
	if gasUsed == target {
		return new(big.Int).Set(base)
	}
	t := new(big.Int).SetUint64(target)
	d := new(big.Int).SetUint64(denom)
	if gasUsed > target {
		delta := new(big.Int).SetUint64(gasUsed - target)
		delta.Mul(base, delta)
		delta.Div(delta, t)
		delta.Div(delta, d)
		if delta.Sign() == 0 {
			delta.SetUint64(1)
		}
		return delta.Add(base, delta)
	}
	delta := new(big.Int).SetUint64(target - gasUsed)
	delta.Mul(base, delta)
	delta.Div(delta, t)
	delta.Div(delta, d)
	return delta.Sub(base, delta)
}

func zzH_C35_basefee() {
	cfg := &params.ChainConfig{LondonBlock: big.NewInt(0)}
	gasLimit, gasUsed := zzNondetU64(), zzNondetU64()
	zzAssume(gasLimit >= params.MinGasLimit) // header validation: gas limit >= 5000
	zzAssume(gasLimit <= 1<<63-1)           // header validation: gas limit < 2^63
	base := zzNondetBig(zzBound("FEEBITS"))
	parent := &types.Header{Number: big.NewInt(10), GasLimit: gasLimit, GasUsed: gasUsed, BaseFee: base}
	got := CalcBaseFee(cfg, parent)
	want := zzSpecBaseFee(base, gasLimit, gasUsed, params.DefaultElasticityMultiplier, params.DefaultBaseFeeChangeDenominator)
	zzAssert(zzBigEq(got, want), "CalcBaseFee equals the EIP-1559 formula")
	zzAssert(got.Sign() >= 0, "base fee is never negative")
	if gasUsed <= gasLimit/params.DefaultElasticityMultiplier*params.DefaultElasticityMultiplier {
		// gas used within ELASTICITY_MULTIPLIER * target (for an even gas limit that is
		// every valid parent; for an odd limit the EIP formula itself exceeds 1/8 by
		// base/(8*target) when the block is completely full, so that point is excluded):
		// the base fee moves by at most 1/8 (or 1 wei)
		eighth := new(big.Int).Div(base, big.NewInt(8))
		if eighth.Sign() == 0 {
			eighth.SetUint64(1)
		}
		up := new(big.Int).Add(base, eighth)
		down := new(big.Int).Sub(base, eighth)
		zzAssert(zzBigLe(got, up), "base fee rises by at most max(1, base/8)")
		zzAssert(zzBigLe(down, got), "base fee falls by at most max(1, base/8)")
		target := gasLimit / 2
		if gasUsed > target {
			zzAssert(zzBigLt(base, got), "base fee strictly rises above target")
			zzReach("above-target")
		} else if gasUsed < target {
			zzAssert(zzBigLe(got, base), "base fee does not rise below target")
			zzReach("below-target")
		} else {
			zzAssert(zzBigEq(got, base), "base fee unchanged at target")
			zzReach("at-target")
		}
	}
	// pre-London parent: the initial base fee
	pre := &params.ChainConfig{LondonBlock: big.NewInt(11)}
	zzAssert(CalcBaseFee(pre, parent).Cmp(big.NewInt(params.InitialBaseFee)) == 0, "first London block starts at the initial base fee")
	zzObserve("fee-lo", got.Uint64())
}

// Header verification around the fork block: accepted iff the gas limit is within bounds of the
// (at the fork block: doubled) parent limit and the base fee is the expected one.
func zzH_C35_header1559() {
	london := uint64(zzNondetU32())
	cfg := &params.ChainConfig{LondonBlock: new(big.Int).SetUint64(london)}
	pnum := uint64(zzNondetU32())
	pLimit, pUsed, hLimit := zzNondetU64(), zzNondetU64(), zzNondetU64()
	zzAssume(pLimit >= params.MinGasLimit)
	zzAssume(pLimit <= 1<<62)
	zzAssume(hLimit <= 1<<62)
	pBase, hBase := zzNondetBig(64), zzNondetBig(64)
	parent := &types.Header{Number: new(big.Int).SetUint64(pnum), GasLimit: pLimit, GasUsed: pUsed, BaseFee: pBase}
	header := &types.Header{Number: new(big.Int).SetUint64(pnum + 1), GasLimit: hLimit, BaseFee: hBase}
	err := VerifyEIP1559Header(cfg, parent, header)

	parentIsLondon := pnum >= london
	ref := pLimit
	if !parentIsLondon {
		ref = pLimit * 2 // EIP-1559: the fork block's limit is compared with twice the parent's
	}
	var diff uint64
	if ref > hLimit {
		diff = ref - hLimit
	} else {
		diff = hLimit - ref
	}
	limitOK := diff < ref/1024 && hLimit >= 5000
	var want *big.Int
	if parentIsLondon {
		want = zzSpecBaseFee(pBase, pLimit, pUsed, 2, 8)
	} else {
		want = big.NewInt(1000000000) // INITIAL_BASE_FEE
	}
	zzAssert((err == nil) == zzAll(limitOK, zzBigEq(hBase, want)), "header accepted iff gas limit within bounds and base fee as specified")
	if err == nil && parentIsLondon {
		zzReach("accepted")
	} else if err == nil {
		zzReach("accepted-fork-block")
	} else {
		zzReach("rejected")
	}
}

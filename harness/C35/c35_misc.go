package misc

import "github.com/ethereum/go-ethereum/params"

// Harness for C35 (gas limit bounds), package consensus/misc.
func zzH_C35_gaslimit() {
	p, h := zzNondetU64(), zzNondetU64()
	zzAssume(p <= 1<<63-1) // header validation caps the gas limit below 2^63
	zzAssume(h <= 1<<63-1)
	err := VerifyGaslimit(p, h)
	var diff uint64
	if p > h {
		diff = p - h
	} else {
		diff = h - p
	}
	ok := zzAll(diff < p/params.GasLimitBoundDivisor, h >= params.MinGasLimit)
	zzAssert((err == nil) == ok, "VerifyGaslimit accepts iff |parent-header| < parent/1024 and header >= 5000")
	if err == nil {
		zzReach("accepted")
	} else {
		zzReach("rejected")
	}
	zzObserve("ok", err == nil)
}

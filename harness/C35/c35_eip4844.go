package eip4844

import (
	"math/big"

	"github.com/ethereum/go-ethereum/core/types"
	"github.com/ethereum/go-ethereum/params"
)

// Harnesses for C35 (blob gas), package consensus/misc/eip4844.

// EIP-4844 / EIP-7918 excess blob gas; get_base_fee_per_blob_gas is the same
// (uninterpreted) function on both sides.
func zzH_C35_excess_blob() {
	isOsaka := zzNondetBool()
	target, max := zzNondetInt(), zzNondetInt()
	zzAssume(target >= 1)
	zzAssume(target < max)
	zzAssume(max <= 1<<16)
	bcfg := BlobConfig{Target: target, Max: max, UpdateFraction: zzNondetU64()}
	zzAssume(bcfg.UpdateFraction >= 1<<20) // real update fractions are >= 3338477; with excess <= 2^25 the exponent stays <= 32
	excess, used := zzNondetU64(), zzNondetU64()
	zzAssume(used <= uint64(max)*params.BlobTxBlobGasPerBlob) // header validation
	zzBlobFeeFacts(&bcfg, excess)
	baseFee := zzNondetBig(256)
	parent := &types.Header{ExcessBlobGas: &excess, BlobGasUsed: &used, BaseFee: baseFee}
	got := calcExcessBlobGas(isOsaka, bcfg, parent)

	targetGas := uint64(target) * params.BlobTxBlobGasPerBlob
	var want uint64
	switch {
	case excess+used < targetGas:
		want = 0
		zzReach("below-target")
	case isOsaka && new(big.Int).Mul(big.NewInt(params.BlobBaseCost), baseFee).Cmp(
		new(big.Int).Mul(bcfg.blobBaseFee(excess), big.NewInt(params.BlobTxBlobGasPerBlob))) > 0:
		want = excess + used*uint64(max-target)/uint64(max)
		zzReach("reserve-price")
	default:
		want = excess + used - targetGas
		zzReach("normal")
	}
	zzAssert(got == want, "calcExcessBlobGas equals the EIP-4844/EIP-7918 formula")
	// pre-4844 parent (no blob fields): excess starts from zero
	p0 := &types.Header{BaseFee: baseFee}
	zzAssert(calcExcessBlobGas(isOsaka, bcfg, p0) == 0, "first blob block has no excess")
	zzObserve("got", got)
}

// EIP-4844 fake_exponential (divides by denominator*i in one step).
func zzSpecFakeExp(factor, numerator, denominator *big.Int, maxIter int) (*big.Int, bool) {
	i := 1
	output := new(big.Int)
	accum := new(big.Int).Mul(factor, denominator)
	for accum.Sign() > 0 {
		if i > maxIter {
			return nil, false
		}
		output.Add(output, accum)
		accum.Mul(accum, numerator)
		accum.Div(accum, new(big.Int).Mul(denominator, big.NewInt(int64(i))))
		i++
	}
	return output.Div(output, denominator), true
}

func zzH_C35_fake_exp() {
	fr := [...]uint64{3338477, 5007716, 8346193, 11684671}
	d := fr[zzChoice(zzBound("FRACTIONS"))]
	n := zzNondetU64()
	zzAssume(n <= uint64(zzBound("NMULT"))*d)
	num, den := new(big.Int).SetUint64(n), new(big.Int).SetUint64(d)
	got := fakeExponential(big.NewInt(1), num, den)
	want, ok := zzSpecFakeExp(big.NewInt(1), num, den, 60)
	zzAssert(ok, "reference loop terminates within 60 iterations")
	zzAssert(zzBigEq(got, want), "fakeExponential equals EIP-4844 fake_exponential")
	zzAssert(got.Sign() >= 1, "blob base fee is at least MIN_BLOB_GASPRICE")
	zzReach("fake-exp")
	zzObserve("lo", got.Uint64())
}

// zzBlobFeeFacts bounds the excess and states facts about the real blob base fee that the
// uninterpreted stand-in must respect, so that counterexamples replay natively (the native run
// evaluates the real exponential and checks the facts on its concrete inputs): the fee is at
// least MIN_BLOB_BASE_FEE = 1; while the exponent excess/fraction is below 1/2 it is exactly 1
// (e^0.5 < 2); below 1 it is at most 2. With SMALLEXCESS the excess stays in the first range.
func zzBlobFeeFacts(bc *BlobConfig, excess uint64) {
	if zzBound("SMALLEXCESS") != 0 {
		zzAssume(excess < 1<<19) // update fractions are >= 2^20
	} else {
		zzAssume(excess <= 1<<25)
	}
	fee := bc.blobBaseFee(excess)
	zzAssume(zzBigLe(big.NewInt(1), fee))
	zzAssume(zzAny(2*excess >= bc.UpdateFraction, zzBigEq(fee, big.NewInt(1))))
	zzAssume(zzAny(excess >= bc.UpdateFraction, zzBigLe(fee, big.NewInt(2))))
}

// ---- fork selection: which blob schedule and which excess rule apply to a block ----

func zzBlobParams() *params.BlobConfig {
	t, m := zzNondetInt(), zzNondetInt()
	zzAssume(t >= 1)
	zzAssume(t < m)
	zzAssume(m <= 1<<10)
	u := zzNondetU64()
	zzAssume(u >= 1<<20) // real update fractions are >= 3338477; keeps excess/fraction (the exponent) small
	return &params.BlobConfig{Target: t, Max: m, UpdateFraction: u}
}

// zzSchedule: London at genesis; Cancun <= Prague <= Osaka <= BPO1 <= BPO2 at symbolic times.
// times[0..3] are the forks that carry blob parameters (Cancun, Prague, BPO1, BPO2), each with
// its own symbolic entry; Osaka changes the excess rule only.
func zzSchedule() (cfg *params.ChainConfig, times [4]uint64, osaka uint64, sched [4]*params.BlobConfig) {
	for i := range times {
		times[i] = zzNondetU64()
		if i > 0 {
			zzAssume(times[i-1] <= times[i])
		}
		sched[i] = zzBlobParams()
	}
	osaka = zzNondetU64()
	zzAssume(times[1] <= osaka)
	zzAssume(osaka <= times[2])
	cfg = &params.ChainConfig{LondonBlock: big.NewInt(0),
		CancunTime: &times[0], PragueTime: &times[1], OsakaTime: &osaka, BPO1Time: &times[2], BPO2Time: &times[3],
		BlobScheduleConfig: &params.BlobScheduleConfig{Cancun: sched[0], Prague: sched[1], BPO1: sched[2], BPO2: sched[3]}}
	return
}

// the schedule entry in force at time t: the latest blob-parameter fork whose time has come (EIP-7892)
func zzActive(times [4]uint64, sched [4]*params.BlobConfig, t uint64) BlobConfig {
	k := 0
	for i := 1; i < 4; i++ {
		if times[i] <= t {
			k = i
		}
	}
	return BlobConfig{Target: sched[k].Target, Max: sched[k].Max, UpdateFraction: sched[k].UpdateFraction}
}

func zzH_C35_schedule() {
	cfg, times, osaka, sched := zzSchedule()
	head := zzNondetU64()
	zzAssume(head >= times[0]) // blob headers exist from Cancun on
	ptime := zzNondetU64()
	zzAssume(ptime < head)
	excess, used := zzNondetU64(), zzNondetU64()
	zzAssume(used <= 1<<27)
	parent := &types.Header{Number: big.NewInt(9), Time: ptime, ExcessBlobGas: &excess, BlobGasUsed: &used, BaseFee: zzNondetBig(64)}
	// Facts about the real blob base fee that the uninterpreted stand-in must respect, so that
	// counterexamples replay natively (the native run checks them on its concrete inputs):
	// it is at least MIN_BLOB_BASE_FEE = 1, and below e < 3 while the exponent excess/fraction < 1.
	actP := zzActive(times, sched, head)
	zzBlobFeeFacts(&actP, excess)
	got := CalcExcessBlobGas(cfg, parent, head)
	// the block's own timestamp decides both the schedule entry and the EIP-7918 rule
	want := calcExcessBlobGas(head >= osaka, zzActive(times, sched, head), parent)
	zzAssert(got == want, "excess blob gas uses the schedule entry and Osaka rule in force at the block's timestamp")

	// header verification
	hx, hu := zzNondetU64(), zzNondetU64()
	zzAssume(hx <= 1<<25)
	header := &types.Header{Number: big.NewInt(10), Time: head, ExcessBlobGas: &hx, BlobGasUsed: &hu}
	err := VerifyEIP4844Header(cfg, parent, header)
	act := zzActive(times, sched, head)
	ok := zzAll(hx == want, hu <= uint64(act.Max)*(1<<17), hu%(1<<17) == 0)
	zzAssert((err == nil) == ok, "header accepted iff excess matches, blob gas used is a multiple of the blob size and within the active maximum")
	if err == nil {
		zzReach("header-accepted")
	} else {
		zzReach("header-rejected")
	}
	zzAssert(MaxBlobsPerBlock(cfg, head) == act.Max && TargetBlobsPerBlock(cfg, head) == act.Target, "per-block blob limits follow the active entry")
	zzAssert(zzBigEq(CalcBlobFee(cfg, header), act.blobBaseFee(hx)), "blob fee uses the active update fraction")
	zzObserve("excess", got)
}

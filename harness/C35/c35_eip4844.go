package eip4844

import (
	"math/big"

	"github.com/ethereum/go-ethereum/core/types"
	"github.com/ethereum/go-ethereum/params"
)

// Harnesses for C35 (blob gas), package consensus/misc/eip4844.

// EIP-4844 / EIP-7918 excess blob gas; get_base_fee_per_blob_gas is the same
// (uninterpreted) function on both sides.
func zzH_C35_excess_blob() {
	isOsaka := zzNondetBool()
	target, max := zzNondetInt(), zzNondetInt()
	zzAssume(target >= 1)
	zzAssume(target < max)
	zzAssume(max <= 1<<16)
	bcfg := BlobConfig{Target: target, Max: max, UpdateFraction: zzNondetU64()}
	zzAssume(bcfg.UpdateFraction >= 1) // chain-config validity: the update fraction is a divisor
	excess, used := zzNondetU64(), zzNondetU64()
	zzAssume(excess <= 1<<40)
	zzAssume(used <= uint64(max)*params.BlobTxBlobGasPerBlob) // header validation
	baseFee := zzNondetBig(256)
	parent := &types.Header{ExcessBlobGas: &excess, BlobGasUsed: &used, BaseFee: baseFee}
	got := calcExcessBlobGas(isOsaka, bcfg, parent)

	targetGas := uint64(target) * params.BlobTxBlobGasPerBlob
	var want uint64
	switch {
	case excess+used < targetGas:
		want = 0
		zzReach("below-target")
	case isOsaka && new(big.Int).Mul(big.NewInt(params.BlobBaseCost), baseFee).Cmp(
		new(big.Int).Mul(bcfg.blobBaseFee(excess), big.NewInt(params.BlobTxBlobGasPerBlob))) > 0:
		want = excess + used*uint64(max-target)/uint64(max)
		zzReach("reserve-price")
	default:
		want = excess + used - targetGas
		zzReach("normal")
	}
	zzAssert(got == want, "calcExcessBlobGas equals the EIP-4844/EIP-7918 formula")
	// pre-4844 parent (no blob fields): excess starts from zero
	p0 := &types.Header{BaseFee: baseFee}
	zzAssert(calcExcessBlobGas(isOsaka, bcfg, p0) == 0, "first blob block has no excess")
	zzObserve("got", got)
}

// EIP-4844 fake_exponential (divides by denominator*i in one step).
func zzSpecFakeExp(factor, numerator, denominator *big.Int, maxIter int) (*big.Int, bool) {
	i := 1
	output := new(big.Int)
	accum := new(big.Int).Mul(factor, denominator)
	for accum.Sign() > 0 {
		if i > maxIter {
			return nil, false
		}
		output.Add(output, accum)
		accum.Mul(accum, numerator)
		accum.Div(accum, new(big.Int).Mul(denominator, big.NewInt(int64(i))))
		i++
	}
	return output.Div(output, denominator), true
}

func zzH_C35_fake_exp() {
	fr := [...]uint64{3338477, 5007716, 8346193, 11684671}
	d := fr[zzChoice(zzBound("FRACTIONS"))]
	n := zzNondetU64()
	zzAssume(n <= uint64(zzBound("NMULT"))*d)
	num, den := new(big.Int).SetUint64(n), new(big.Int).SetUint64(d)
	got := fakeExponential(big.NewInt(1), num, den)
	want, ok := zzSpecFakeExp(big.NewInt(1), num, den, 60)
	zzAssert(ok, "reference loop terminates within 60 iterations")
	zzAssert(zzBigEq(got, want), "fakeExponential equals EIP-4844 fake_exponential")
	zzAssert(got.Sign() >= 1, "blob base fee is at least MIN_BLOB_GASPRICE")
	zzReach("fake-exp")
	zzObserve("lo", got.Uint64())
}

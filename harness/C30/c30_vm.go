package vm

import (
	"github.com/ethereum/go-ethereum/common"
	"github.com/holiman/uint256"
)

// Harnesses for C30 (jump destination analysis), package core/vm.

// zzRefData is the bytecode definition: scanning from 0, the k bytes after a
// PUSHk opcode are data, everything else is code. data has room for a final
// push that runs past the end of the code.
func zzRefData(code []byte) []bool {
	data := make([]bool, len(code)+33)
	for pc := 0; pc < len(code); {
		op := code[pc]
		pc++
		if zzAll(op >= 0x60, op <= 0x7f) {
			k := zzConcretize(int(op) - 0x5f)
			for j := 0; j < k; j++ {
				data[pc+j] = true
			}
			pc += k
		}
	}
	return data
}

func zzH_C30_bitmap_small() {
	code := zzNondetBytes(zzBound("N"))
	bits := codeBitmap(code)
	zzAssert(len(bits) == len(code)/8+5, "bitmap has len/8+1+4 bytes")
	ref := zzRefData(code)
	for i := 0; i < len(code); i++ {
		zzAssert(bits.codeSegment(uint64(i)) == !ref[i], "bitmap bit == !data for every position")
	}
	// bits beyond the code that are set can only come from a truncated final push
	for i := len(code); i < len(bits)*8 && i < len(ref); i++ {
		zzAssert(bits.codeSegment(uint64(i)) == !ref[i], "overhang bits are exactly the truncated immediate")
	}
	zzReach("compared")
	zzObserve("bits", []byte(bits))
}

func zzIsPush(b byte) bool { return zzAll(b >= 0x60, b <= 0x7f) }

// Window harness: 48-byte code; every byte symbolic. Bytes outside push
// immediates are assumed non-PUSH except one or two "free" opcodes: the first
// at offset p (every bit alignment), the second right after the first one's
// immediate data.
func zzH_C30_bitmap_window() {
	const L = 48
	code := zzNondetBytesN(L)
	p := zzChoice(zzBound("P"))
	if zzBound("PSTEP") > 1 {
		p = p * zzBound("PSTEP")
	}
	two := zzBound("TWO") == 1
	zzAssume(zzIsPush(code[p]))
	k1 := zzConcretize(int(code[p]) - 0x5f)
	q := p + 1 + k1
	if two && q < L {
		// second free opcode: anything (PUSH or not)
	} else if q < L {
		zzAssume(!zzIsPush(code[q]))
	}
	k2 := 0
	if two && q < L && zzIsPush(code[q]) {
		k2 = zzConcretize(int(code[q]) - 0x5f)
		zzReach("two-pushes")
	}
	for i := 0; i < L; i++ {
		inFirst := i > p && i <= p+k1
		inSecond := k2 > 0 && i > q && i <= q+k2
		if i == p || i == q || inFirst || inSecond {
			continue
		}
		zzAssume(!zzIsPush(code[i]))
	}
	cut := zzBound("CUT") // truncate the code so that pushes may overrun the end
	if cut > 0 {
		n := L - zzChoice(cut+1)
		code = code[:n]
		zzAssume(p < n)
	}
	bits := codeBitmap(code)
	for i := 0; i < len(bits)*8; i++ {
		inFirst := i > p && i <= p+k1
		inSecond := k2 > 0 && q < len(code) && i > q && i <= q+k2
		want := !(inFirst || inSecond)
		zzAssert(bits.codeSegment(uint64(i)) == want, "bitmap marks exactly the immediates of the pushes in the window")
	}
	zzReach("window")
	zzObserve("bits", []byte(bits))
}

// One step of the bit-vector setters at a symbolic position.
func zzH_C30_bitvec_step() {
	const nb = 44
	pos := zzNondetU64()
	zzAssume(pos < 8*40)
	old := zzNondetBytesN(nb)
	// bits at or above pos are clear (the scan is monotone: it never sets a bit
	// below a position it has already passed)
	var pre []bool
	for j := 0; j < nb; j++ {
		for b := 0; b < 8; b++ {
			idx := uint64(8*j + b)
			pre = append(pre, zzImplies(idx >= pos, old[j]>>uint(b)&1 == 0))
		}
	}
	zzAssume(zzAll(pre...))
	bits := make(BitVec, nb)
	copy(bits, old)
	var k uint64
	switch zzChoice(4) {
	case 0:
		bits.set1(pos)
		k = 1
		zzReach("set1")
	case 1:
		kk := zzChoice(6) + 2 // 2..7
		k = uint64(kk)
		// through the package's own mask constants, as codeBitmapInternal does
		switch kk {
		case 2:
			bits.setN(set2BitsMask, pos)
		case 3:
			bits.setN(set3BitsMask, pos)
		case 4:
			bits.setN(set4BitsMask, pos)
		case 5:
			bits.setN(set5BitsMask, pos)
		case 6:
			bits.setN(set6BitsMask, pos)
		default:
			bits.setN(set7BitsMask, pos)
		}
		zzReach("setN")
	case 2:
		bits.set8(pos)
		k = 8
		zzReach("set8")
	default:
		bits.set16(pos)
		k = 16
		zzReach("set16")
	}
	var post []bool
	for j := 0; j < nb; j++ {
		var want byte
		for b := 0; b < 8; b++ {
			idx := uint64(8*j + b)
			want |= byte(zzIte(zzAll(idx >= pos, idx < pos+k), 1<<uint(b), 0))
		}
		post = append(post, bits[j] == old[j]|want)
	}
	zzAssert(zzAll(post...), "setter sets exactly bits [pos, pos+k) and preserves all others")
	zzObserve("bits", []byte(bits))
}

func zzH_C30_valid_jumpdest() {
	code := zzNondetBytes(zzBound("N"))
	dest := uint256.Int{zzNondetU64(), zzNondetU64(), zzNondetU64(), zzNondetU64()}
	ref := zzRefData(code)
	want := false
	if dest[1] == 0 && dest[2] == 0 && dest[3] == 0 && dest[0] < uint64(len(code)) {
		d := zzConcretize(int(dest[0]))
		want = code[d] == 0x5b && !ref[d]
		zzReach("in-range")
	} else {
		zzReach("out-of-range")
	}
	// route 1: initcode (no code hash): local analysis
	c1 := &Contract{Code: code}
	got1 := c1.validJumpdest(&dest)
	zzAssert(got1 == want, "validJumpdest == (dest < len && code[dest]==JUMPDEST && not push data) [local analysis]")
	// route 2: code hash set, cache miss then store
	cache := newMapJumpDests()
	h := common.Hash{1}
	c2 := &Contract{Code: code, CodeHash: h, jumpDests: cache}
	got2 := c2.validJumpdest(&dest)
	zzAssert(got2 == want, "validJumpdest agrees on a cache miss")
	// route 3: second contract with the same hash: cache hit (if the first call got as far as the analysis)
	c3 := &Contract{Code: code, CodeHash: h, jumpDests: cache}
	got3 := c3.validJumpdest(&dest)
	zzAssert(got3 == want, "validJumpdest agrees on a cache hit")
	// a second query on the same contract uses the stashed analysis
	zzAssert(c1.validJumpdest(&dest) == want, "validJumpdest is stable across calls")
	zzObserve("valid", got1)
}

package crypto

// Helper for C03, package crypto: the stand-in the harnesses in core/types use
// for Ecrecover (elliptic-curve arithmetic is outside bounded symbolic execution).
// It records what it was asked to recover, succeeds on every input and returns an
// uncompressed-key-shaped value; the native replay runs the real Ecrecover instead.
var (
	ZZCalls int
	ZZHash  [32]byte
	ZZSig   [65]byte
)

func ZZEcrecover(hash, sig []byte) ([]byte, error) {
	ZZCalls++
	copy(ZZHash[:], hash)
	copy(ZZSig[:], sig)
	pub := make([]byte, 65)
	pub[0] = 4
	copy(pub[1:], sig[:64])
	return pub, nil
}

package types

import (
	"math/big"

	"github.com/ethereum/go-ethereum/common"
	"github.com/ethereum/go-ethereum/crypto"
	"github.com/ethereum/go-ethereum/params/forks"
	"github.com/holiman/uint256"
)

// Harnesses for C03 (signature-value, v and chain-id strictness of sender recovery), package core/types.

// secp256k1 group order and its half (SEC 2), written out rather than taken from the code under test.
func zzOrder() (n, half *big.Int) {
	n, _ = new(big.Int).SetString("fffffffffffffffffffffffffffffffebaaedce6af48a03bbfd25e8cd0364141", 16)
	half, _ = new(big.Int).SetString("7fffffffffffffffffffffffffffffff5d576e7357a4501ddfe92f46681b20a0", 16)
	return
}

// zzSigner draws a signer: kind 0 Frontier, 1 Homestead, 2 EIP155(c), 3.. modern(c) at Berlin/London/Cancun/Prague.
func zzSigner(c *big.Int) (s Signer, kind int, fork forks.Fork) {
	kind = zzChoice(7)
	switch kind {
	case 0:
		return FrontierSigner{}, kind, forks.Frontier
	case 1:
		return HomesteadSigner{}, kind, forks.Homestead
	case 2:
		return NewEIP155Signer(c), kind, forks.SpuriousDragon
	case 3:
		return NewEIP2930Signer(c), kind, forks.Berlin
	case 4:
		return NewLondonSigner(c), kind, forks.London
	case 5:
		return NewCancunSigner(c), kind, forks.Cancun
	default:
		return NewPragueSigner(c), kind, forks.Prague
	}
}

// zzTx builds a transaction of the chosen type carrying the given chain id and signature values.
func zzTx(typ int, chain, v, r, s *big.Int) *Transaction {
	switch typ {
	case 0:
		return &Transaction{inner: &LegacyTx{GasPrice: new(big.Int), Value: new(big.Int), V: v, R: r, S: s}}
	case 1:
		return &Transaction{inner: &AccessListTx{ChainID: chain, GasPrice: new(big.Int), Value: new(big.Int), V: v, R: r, S: s}}
	case 2:
		return &Transaction{inner: &DynamicFeeTx{ChainID: chain, GasTipCap: new(big.Int), GasFeeCap: new(big.Int), Value: new(big.Int), V: v, R: r, S: s}}
	case 3:
		return &Transaction{inner: &BlobTx{ChainID: uint256.MustFromBig(chain), GasTipCap: new(uint256.Int), GasFeeCap: new(uint256.Int), Value: new(uint256.Int), BlobFeeCap: new(uint256.Int),
			V: uint256.MustFromBig(v), R: uint256.MustFromBig(r), S: uint256.MustFromBig(s)}}
	default:
		return &Transaction{inner: &SetCodeTx{ChainID: uint256.MustFromBig(chain), GasTipCap: new(uint256.Int), GasFeeCap: new(uint256.Int), Value: new(uint256.Int),
			V: uint256.MustFromBig(v), R: uint256.MustFromBig(r), S: uint256.MustFromBig(s)}}
	}
}

// first fork whose modern signer accepts the type
func zzTypeFork(typ int) forks.Fork {
	return [...]forks.Fork{forks.Frontier, forks.Berlin, forks.London, forks.Cancun, forks.Prague}[typ]
}

// Whenever a signer reports a sender, the signature values, v and chain id satisfy the
// rules of that signer's fork; everything else is an error.
func zzH_C03_strict() {
	zzN, zzHalfN := zzOrder()
	c := new(big.Int).SetUint64(zzNondetU64()) // signer chain id
	zzAssume(c.Sign() > 0)
	signer, kind, fork := zzSigner(c)
	typ := zzChoice(5)
	txChain := new(big.Int).SetUint64(zzNondetU64())
	bits := zzBound("VBITS")
	v, r, s := zzNondetBig(bits), zzNondetBig(256), zzNondetBig(256)
	if zzBound("RSFULL") == 0 {
		// r and s either short (< 2^8) or full length (>= 2^248): their byte encodings, which the
		// code copies into the 65-byte signature, then have 3 instead of 33 possible lengths each
		lo, hi := big.NewInt(256), new(big.Int).Lsh(big.NewInt(1), 248)
		zzAssume(zzAny(zzBigLt(r, lo), zzBigLe(hi, r)))
		zzAssume(zzAny(zzBigLt(s, lo), zzBigLe(hi, s)))
	}
	if typ >= 3 {
		// blob and set-code transactions store V, R, S as 256-bit words
		zzAssume(zzBigLt(v, new(big.Int).Lsh(big.NewInt(1), 256)))
	}
	tx := zzTx(typ, txChain, v, r, s)

	_, err := signer.Sender(tx)
	if err != nil {
		zzReach("rejected")
		return
	}
	zzReach("accepted")
	// signature values in range
	zzAssert(r.Sign() > 0 && r.Cmp(zzN) < 0, "accepted r is in [1, N)")
	zzAssert(s.Sign() > 0 && s.Cmp(zzN) < 0, "accepted s is in [1, N)")
	if kind != 0 {
		zzAssert(s.Cmp(zzHalfN) <= 0, "from Homestead on, accepted s is at most N/2")
	}
	// transaction type known to the signer
	if kind <= 2 {
		zzAssert(typ == 0, "legacy signers accept only legacy transactions")
	} else {
		zzAssert(fork >= zzTypeFork(typ), "typed transaction accepted only from its fork on")
	}
	// v and chain id
	v27, v28 := v.Cmp(big.NewInt(27)) == 0, v.Cmp(big.NewInt(28)) == 0
	if typ == 0 {
		if kind <= 1 {
			zzAssert(v27 || v28, "unprotected legacy signature has v in {27,28}")
		} else {
			lo := new(big.Int).Add(new(big.Int).Lsh(c, 1), big.NewInt(35))
			hi := new(big.Int).Add(lo, big.NewInt(1))
			zzAssert(v27 || v28 || v.Cmp(lo) == 0 || v.Cmp(hi) == 0, "legacy v is 27/28 or 2*chainid+35/36 of the signer's chain")
		}
	} else {
		zzAssert(txChain.Cmp(c) == 0, "typed transaction must carry the signer's chain id")
		zzAssert(v.Sign() == 0 || v.Cmp(big.NewInt(1)) == 0, "typed transaction has y-parity 0 or 1")
	}
}

// Signing then recovering: the values WithSignature stores make Sender hand exactly
// (hash, r, s, recovery id) to the curve, i.e. it recovers the key that produced sig.
func zzH_C03_roundtrip() {
	zzN, zzHalfN := zzOrder()
	c := new(big.Int).SetUint64(zzNondetU64())
	zzAssume(c.Sign() > 0)
	zzAssume(c.BitLen() <= 62)
	signer, kind, fork := zzSigner(c)
	typ := zzChoice(5)
	supported := typ == 0 || (kind > 2 && fork >= zzTypeFork(typ))
	// the unsigned transaction carries the signer's chain id (or, for typed ones, possibly none)
	txChain := c
	tx := zzTx(typ, txChain, new(big.Int), new(big.Int), new(big.Int))
	sig := zzNondetBytesN(65)
	zzAssume(sig[64] <= 1)
	if zzBound("RSFULL") == 0 {
		zzAssume(sig[0] != 0 && sig[32] != 0) // full-length r and s (their encodings have one possible length)
	}
	signed, err := tx.WithSignature(signer, sig)
	if !supported {
		zzAssert(err != nil, "a signer refuses transaction types it does not know")
		zzReach("unsupported")
		return
	}
	zzAssert(err == nil, "a well-formed 65-byte signature is always accepted for storing")
	crypto.ZZCalls = 0
	got, err := signer.Sender(signed)
	rInt, sInt := new(big.Int).SetBytes(sig[:32]), new(big.Int).SetBytes(sig[32:64])
	valid := rInt.Sign() > 0 && sInt.Sign() > 0 && rInt.Cmp(zzN) < 0 && sInt.Cmp(zzN) < 0 && (kind == 0 || sInt.Cmp(zzHalfN) <= 0)
	if !valid {
		zzAssert(err != nil, "out-of-range signature values are rejected on recovery")
		zzReach("invalid-values")
		return
	}
	h := signer.Hash(signed)
	if crypto.ZZCalls > 0 {
		// analysis: the stand-in recorded what Sender handed to the curve
		zzAssert(crypto.ZZCalls == 1 && err == nil, "recovery reaches the curve once and succeeds")
		zzAssert(crypto.ZZHash == h, "the signing hash of the signed transaction is recovered against")
		zzAssert(zzBytesEq(crypto.ZZSig[:], sig), "exactly r, s and the recovery id of the signature are handed to the curve")
		zzReach("recovered")
		return
	}
	// native replay: compare with the key the real curve recovers from (hash, sig)
	pub, perr := crypto.Ecrecover(h[:], sig)
	if perr != nil || len(pub) == 0 || pub[0] != 4 {
		zzAssert(err != nil, "no sender when the curve yields no key")
		return
	}
	zzAssert(err == nil, "recovery succeeds when the curve yields a key")
	var want common.Address
	copy(want[:], crypto.Keccak256(pub[1:])[12:])
	zzAssert(got == want, "exactly r, s and the recovery id of the signature are handed to the curve")
}

// sanityCheckSignature (used when decoding): a cheap filter; whatever it accepts has r and s
// in range, typed transactions (not optionally protected) carry the y-parity itself, and a
// plain 27/28 is understood as recovery id 0/1. (Which chain a protected v names is checked by
// the signer, see strict.)
func zzH_C03_sanity() {
	zzN, _ := zzOrder()
	v, r, s := zzNondetBig(zzBound("VBITS")), zzNondetBig(256), zzNondetBig(256)
	maybeProtected := zzNondetBool()
	err := sanityCheckSignature(v, r, s, maybeProtected)
	if err != nil {
		zzReach("rejected")
		return
	}
	zzReach("accepted")
	zzAssert(r.Sign() > 0 && r.Cmp(zzN) < 0, "accepted r is in [1, N)")
	zzAssert(s.Sign() > 0 && s.Cmp(zzN) < 0, "accepted s is in [1, N)")
	if !maybeProtected {
		zzAssert(v.Sign() == 0 || v.Cmp(big.NewInt(1)) == 0, "typed transactions carry y-parity 0 or 1")
	}
}

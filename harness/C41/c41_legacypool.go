package legacypool

import (
	"math/big"

	"github.com/ethereum/go-ethereum/core/types"
	"github.com/holiman/uint256"
)

// Harnesses for C41 (per-account transaction list of the legacy pool), package core/txpool/legacypool.

type zzTx struct {
	tx    *types.Transaction
	nonce uint64
	gas   uint64
	fee   *big.Int // fee cap
	tip   *big.Int
	cost  *big.Int // gas*feeCap + value
}

// zzNewTx draws a dynamic-fee transaction; bits bounds fee cap, tip and value.
func zzNewTx(nonce uint64, bits int) *zzTx {
	gas := zzNondetU64()
	zzAssume(gas <= 1<<32)
	fee, tip, value := zzNondetBig(bits), zzNondetBig(bits), zzNondetBig(bits)
	tx := types.NewTx(&types.DynamicFeeTx{Nonce: nonce, Gas: gas, GasFeeCap: fee, GasTipCap: tip, Value: value})
	cost := new(big.Int).SetUint64(gas)
	cost.Mul(cost, fee)
	cost.Add(cost, value)
	// lemma for the solver (proved, then available on the path): the cost fits well within 256 bits
	zzAssert(zzBigLt(cost, new(big.Int).Lsh(big.NewInt(1), uint(bits+34))), "cost bound")
	return &zzTx{tx: tx, nonce: nonce, gas: gas, fee: fee, tip: tip, cost: cost}
}

func zzBigOf(x *uint256.Int) *big.Int { return x.ToBig() }

// Replacement at the same nonce: exactly the price-bump rule.
func zzH_C41_replace_bump() {
	bits := zzBound("BITS")
	bump := zzNondetU64()
	zzAssume(bump <= 1000)
	n := zzNondetU64()
	old, nw := zzNewTx(n, bits), zzNewTx(n, bits)
	l := newList(zzNondetBool())
	ok, prev := l.Add(old.tx, bump)
	zzAssert(ok && prev == nil, "a transaction at a free nonce is accepted")
	ok, prev = l.Add(nw.tx, bump)

	hundred := big.NewInt(100)
	f := new(big.Int).SetUint64(100 + bump)
	thrFee := new(big.Int).Mul(f, old.fee)
	thrFee.Div(thrFee, hundred)
	thrTip := new(big.Int).Mul(f, old.tip)
	thrTip.Div(thrTip, hundred)
	enough := zzAll(zzBigLt(old.fee, nw.fee), zzBigLt(old.tip, nw.tip), zzBigLe(thrFee, nw.fee), zzBigLe(thrTip, nw.tip))
	if ok {
		zzAssert(enough, "a replacement raises fee cap and tip above the old ones and by at least the price bump")
		zzAssert(prev == old.tx, "the replaced transaction is handed back")
		zzAssert(l.txs.Get(n) == nw.tx && l.Len() == 1, "the new transaction took the nonce")
		zzAssert(zzBigEq(zzBigOf(l.totalcost), nw.cost), "total cost is the cost of the remaining transaction")
		zzAssert(zzBigLe(nw.cost, zzBigOf(l.costcap)) && nw.gas <= l.gascap, "cost and gas caps cover the new transaction")
		zzReach("replaced")
	} else {
		zzAssert(prev == nil, "nothing is handed back on refusal")
		zzAssert(!enough, "an under-priced replacement is the only reason for refusal at this size")
		zzAssert(l.txs.Get(n) == old.tx && l.Len() == 1, "the old transaction stays")
		zzAssert(zzBigEq(zzBigOf(l.totalcost), old.cost), "total cost unchanged")
		zzReach("refused")
	}
}

// zzBuild adds k transactions with distinct symbolic nonces through the real Add.
func zzBuild(l *list, k, bits int) []*zzTx {
	var txs []*zzTx
	for i := 0; i < k; i++ {
		t := zzNewTx(zzNondetU64(), bits)
		for _, o := range txs {
			zzAssume(o.nonce != t.nonce)
		}
		ok, _ := l.Add(t.tx, 10)
		zzAssert(ok, "a transaction at a free nonce is accepted")
		txs = append(txs, t)
	}
	return txs
}

// zzCheck: the list holds exactly the transactions marked live, nonce-sorted when flattened,
// with exact total cost and caps covering every transaction.
func zzCheck(l *list, txs []*zzTx, live []bool) {
	n := 0
	total := new(big.Int)
	for i, t := range txs {
		if live[i] {
			n++
			total.Add(total, t.cost)
			zzAssert(l.txs.Get(t.nonce) == t.tx, "a kept transaction is still indexed by its nonce")
			zzAssert(zzBigLe(t.cost, zzBigOf(l.costcap)) && t.gas <= l.gascap, "cost and gas caps cover every kept transaction")
		} else {
			zzAssert(l.txs.Get(t.nonce) == nil, "a removed transaction is gone")
		}
	}
	zzAssert(l.Len() == n, "no other transactions")
	zzAssert(zzBigEq(zzBigOf(l.totalcost), total), "total cost is the sum of the kept transactions' costs")
	flat := l.Flatten()
	zzAssert(len(flat) == n, "flattened view has every kept transaction")
	for j := 0; j < len(flat); j++ {
		found := false
		for i, t := range txs {
			if live[i] && flat[j] == t.tx {
				found = true
			}
		}
		zzAssert(found, "flattened view holds only kept transactions")
		if j+1 < len(flat) {
			zzAssert(flat[j].Nonce() < flat[j+1].Nonce(), "flattened view is in ascending nonce order")
		}
	}
	zzAssert(l.txs.index.Len() == n, "nonce index and items agree")
}

func zzIn(set types.Transactions, tx *types.Transaction) bool {
	for _, x := range set {
		if x == tx {
			return true
		}
	}
	return false
}

// One operation on a list built through Add, with a flattened view cached beforehand.
func zzH_C41_list_ops() {
	K, bits := zzBound("K"), zzBound("BITS")
	strict := zzNondetBool()
	l := newList(strict)
	k := 1 + zzChoice(K)
	txs := zzBuild(l, k, bits)
	live := make([]bool, k+1)
	for i := range txs {
		live[i] = true
	}
	zzCheck(l, txs, live) // also fills the flatten cache
	switch zzChoice(6) {
	case 0: // replace an existing transaction by a better priced one
		o := txs[zzChoice(k)]
		t := zzNewTx(o.nonce, bits)
		ok, prev := l.Add(t.tx, 10)
		if ok {
			zzAssert(prev == o.tx, "the replaced transaction is handed back")
			for i := range txs {
				if txs[i] == o {
					txs[i] = t
				}
			}
			zzReach("replace")
		}
	case 1: // remove
		o := txs[zzChoice(k)]
		found, invalid := l.Remove(o.tx)
		zzAssert(found, "a listed transaction is found")
		for i, t := range txs {
			gone := t == o || (strict && t.nonce > o.nonce)
			zzAssert(zzIn(invalid, t.tx) == (gone && t != o), "strict lists invalidate exactly the higher nonces")
			live[i] = !gone
		}
		zzReach("remove")
	case 2: // forward
		th := zzNondetU64()
		out := l.Forward(th)
		for i, t := range txs {
			zzAssert(zzIn(out, t.tx) == (t.nonce < th), "Forward returns exactly the lower nonces")
			live[i] = t.nonce >= th
		}
		for j := 0; j+1 < len(out); j++ {
			zzAssert(out[j].Nonce() < out[j+1].Nonce(), "in ascending order")
		}
		zzReach("forward")
	case 3: // filter by balance and gas limit
		lim := zzNondetBig(bits + 40)
		gasLim := zzNondetU64()
		limU, _ := uint256.FromBig(lim)
		removed, invalid := l.Filter(limU, gasLim)
		lowest := ^uint64(0)
		for _, t := range txs {
			if (t.gas > gasLim || t.cost.Cmp(lim) > 0) && t.nonce < lowest {
				lowest = t.nonce
			}
		}
		for i, t := range txs {
			over := t.gas > gasLim || t.cost.Cmp(lim) > 0
			zzAssert(zzIn(removed, t.tx) == over, "Filter removes exactly the transactions above the balance or gas limit")
			inv := !over && strict && t.nonce > lowest
			zzAssert(zzIn(invalid, t.tx) == inv, "strict lists invalidate exactly what follows the first removed nonce")
			live[i] = !over && !inv
		}
		zzReach("filter")
	case 4: // cap
		c := zzChoice(k + 1)
		out := l.Cap(c)
		for i, t := range txs {
			higher := 0
			for _, u := range txs {
				if u.nonce > t.nonce {
					higher++
				}
			}
			drop := higher < k-c // among the k-c highest nonces
			zzAssert(zzIn(out, t.tx) == drop, "Cap drops exactly the highest nonces beyond the limit")
			live[i] = !drop
		}
		zzReach("cap")
	default: // ready
		start := zzNondetU64()
		out := l.Ready(start)
		min := ^uint64(0)
		for _, t := range txs {
			if t.nonce < min {
				min = t.nonce
			}
		}
		for i, t := range txs {
			// in the run min, min+1, ... without a gap, provided the run starts at or below start
			run := min <= start
			for x := min; run && x < t.nonce; x++ {
				has := false
				for _, u := range txs {
					if u.nonce == x {
						has = true
					}
				}
				if !has {
					run = false
				}
				if x-min > uint64(k) {
					run = false
					break
				}
			}
			zzAssert(zzIn(out, t.tx) == run, "Ready returns exactly the gapless run from the lowest nonce, if that is not above start")
			live[i] = !run
		}
		for j := 0; j+1 < len(out); j++ {
			zzAssert(out[j].Nonce()+1 == out[j+1].Nonce(), "consecutive nonces in order")
		}
		zzReach("ready")
	}
	zzCheck(l, txs, live[:k])
}
